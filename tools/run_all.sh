#!/bin/sh
# runs every check of one tier: tools/run_all.sh [quick|thorough] [property ids in the order to run them]
tier=${1:-quick}
[ $# -gt 0 ] && shift
props=${*:-C01 C02 C03 C04 C05 C06 C07 C08 C09 C10 C11 C12 C13 C14 C15 C16}
cd "$(dirname "$0")/.."
first=1
for p in $props; do
  if [ $first = 1 ]; then nb=""; first=0; else nb="--no-build"; fi
  ./check $p --tier $tier $nb 2>&1 | grep -E "^(VIOLATION|MACHINERY|  key|C[0-9][0-9] )" | cut -c1-400
done
