#!/bin/sh
# runs every check of one tier: tools/run_all.sh [quick|thorough]
tier=${1:-quick}
cd /verif
rc=0
for p in C01 C02 C03 C04 C05 C06 C07 C08 C09 C10 C11 C12 C13 C14 C15 C16; do
  ./check $p --tier $tier --no-build 2>&1 | grep -E "^(VIOLATION|MACHINERY|  key|C[0-9][0-9] )" | cut -c1-400
done
