#!/bin/sh
# tools/try_patch.sh <patch.diff> <PROP> [<PROP> ...]
# applies a patch to /repo, runs the quick checks of the given properties, and reverts the patch.
patch=$(readlink -f "$1"); shift
verif=$(cd "$(dirname "$0")/.." && pwd)
cd /repo || exit 2
git diff --quiet || { echo "MACHINERY-ERROR /repo has uncommitted changes"; exit 2; }
git apply "$patch" || { echo "MACHINERY-ERROR patch does not apply"; exit 2; }
cd "$verif"
for p in "$@"; do
  ./check $p --tier ${TIER:-quick} 2>&1 | grep -E "^(VIOLATION|MACHINERY|KNOWN|  key|C[0-9][0-9] )" | cut -c1-300
done
git -C /repo checkout -- . 
git -C /repo status --short | head -3
