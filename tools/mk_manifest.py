#!/usr/bin/env python3
"""Writes /verif/MANIFEST.json (kept in one place so that all 16 entries stay consistent)."""
import json, os, subprocess

P = {
 'C01': ('ordered collect == sequential chain', "Every interleaving of 2 workers (FULL) and all schedules with <= 1-2 preemptions / <= 2 delays of 3 workers, of the spawner and the workers of the five ordered-collect kernels (both chunk paths, Vec/SplitVec/FixedVec targets, known- and unknown-length wrapped sources, all 2^N filter masks), plus every one of the 95 transformation chains x 41 source kinds (incl. concurrent iterators advanced before into_par(), both VecDeque layouts, 64 KiB items) x inputs of length 0..4(5) (incl. duplicates) x parameter settings under two base schedules; inputs of 300-5000 and of 400 000 elements, sources in a particular state x chunks of 64/100/Auto, zero-sized / 136-byte / 64 KiB output types, and computations built on a worker thread of another computation under base schedules; each execution of the real code compared with the sequential reference chain.", '7 C01'),
 'C02': ('find/first/any/all return the first match in source order', "All 2^N predicates x every interleaving of 2 workers on the three find kernels (both chunk paths, Vec and by-value sources), 3 workers with matches in different chunks under PB(2)/DB(2), the *_with_index variants on the concrete builder types, 4 workers with <= 6 delays, and all chains x sources x inputs x predicates under base schedules (incl. 400 000-element inputs with the only match near the end, advanced concurrent iterators with chunks of 64/100 elements, 64 KiB items); result (and index) compared with the first match of the sequential chain.", '7 C02'),
 'C03': ('reduce family == sequential fold', "Every interleaving of 2 workers / bounded schedules of 3 workers over the three reduce kernels (chunk sizes 1..3, all filter masks incl. 'nothing survives' and 'one worker gets everything') with a hash-sum operator (a lost or duplicated element changes the sum), xor, min, max; the provided wrappers on one chain per builder type, incl. min / max over items whose Ord has ties between distinguishable elements; all chains x sources under base schedules; 400 000-element inputs, advanced concurrent iterators, 64 KiB items.", '7 C03'),
 'C04': ('count / for_each visit every survivor exactly once', "Every interleaving of 2 workers / bounded schedules of 3 workers over the three count kernels (both chunk paths, all filter masks) and all chains x sources x inputs under base schedules; count and the multiset of for_each arguments compared with the sequential chain.", '7 C04'),
 'C05': ('closures exactly once; by-value source exclusive', "The call log (stage, argument) of every explored execution of the full-visit terminals must equal the sequential multiset, of the short-circuit terminals be a sub-multiset; a dedicated harness puts scheduling points *inside* the by-value source's next() (the dependency's busy-wait is made visible through a spin hook) and checks that no two threads are ever inside it and that every yielded element is fed to the first stage exactly once.", '7 C05'),
 'C06': ('collect_into appends', "Vec / SplitVec<Doubling|Linear> / FixedVec targets x previous contents (0,1,3 elements, with and without spare capacity) x the four collect kernels and ParEmpty x known / unknown source length x parallel / num_threads(1), every interleaving of 2 workers for the offset writes of the map-only kernel, bounded schedules elsewhere; result compared with previous contents ++ sequential chain.", '7 C06'),
 'C07': ('collect_x is a permutation', "Every interleaving of 2 workers / bounded schedules of 3 workers over the three collect_x kernels (both chunk paths, inputs with duplicate values, all filter masks) and all chains x sources under base schedules; sorted result compared with the sorted sequential result.", '7 C07'),
 'C08': ('Max(n) bounds concurrency, Max(1) runs on the caller', "Scheduling points at every closure entry: for n in 1..3, lengths n-1..2n+1, both chunk paths and each of the three spawn loops (plus pipelines with an eager stage) the number of threads inside closures is checked in every reached state and the distinct threads per closure at the end, under all schedules with <= 2 preemptions / <= 2 delays; Max(1): every terminal of every chain x source runs on thread 0 with zero spawns.", '7 C08'),
 'C09': ('sequential mode == std iterator', "No schedule dimension (single thread): all 95 chains x 41 source kinds x 39 terminals x chunk settings x inputs 0..4 x closure variants with num_threads(1) on the source; per-stage argument *sequences*, every terminal's value (non-commutative / non-associative reduce and fold included) and the lazy evaluation order of short-circuit terminals compared with the sequential reference, which itself is validated against real std::iter adaptor chains by the self test.", '7 C09'),
 'C10': ('short-circuit terminals stop consuming', "Endless and long sources, 2-3 workers, chunk sizes 1..3, match positions 0..5: all schedules within the preemption / delay bound under bounded-waiting fairness (a thread enabled K times in a row without being chosen is chosen next); an execution that exceeds the decision horizon is a termination violation; in every execution no pull that starts after skip_to_end obtains elements and a finder calls skip_to_end; lazily produced and endless flat_map expansions (an expansion advanced 5 000 times past its match is a violation); the range 1..usize::MAX as a source; sequential clause: the evaluated (stage, argument) sequence equals that of a lazy std chain.", '7 C10'),
 'C11': ('Exact(c): every pull takes exactly c', "6 and 7 workers (workers spawned after the first lag period), c in {1,2}, N in {10c, 20c, 20c+1}, all three spawn loops, wrapped Vec and by-value sources: delay-bounded exploration from the round-robin base schedule (DB(1..2)) + the non-preemptive base; 2-3 workers: all schedules with <= 2 preemptions over every kernel; every logged pull must obtain exactly c elements except one that ends at the source's end (also for 64 KiB items with Exact(1100): a 70 MiB chunk); unwrapped sources: the block -> thread map from the first closure.", '7 C11'),
 'C12': ('parameters propagate unchanged', "Explicit walk of the builder automaton (8 builder types x 4 transformations) x parameter values: for every chain and every position the setters num_threads / chunk_size are called with every value of the alphabet (usize and enum forms, both call orders), pairs of positions with all value combinations (thorough: the full product over all positions); after every step params() must equal the trivial model (last value set, else Auto) and is_sequential() <=> Max(1); the same walk with the computation built inside a closure of another parallel computation (on a worker thread).", '7 C12'),
 'C13': ('owned elements dropped exactly once', "Drop-observing item type (canary + global live/dropped table): every interleaving of 2 workers / bounded schedules of 3 workers over all terminals (find on a prefix, collect_into with previous contents, ordered merge, collect_x, reduce, ...) on owning sources, plus all 95 chains (eager ones included) sequentially and in parallel, 400 000-element inputs (per-worker buffers of > 8 MiB), 64 KiB items, advanced concurrent iterators; after the result is dropped nothing is live, nothing was dropped twice, no garbage was dropped.", '7 C13'),
 'C14': ('panicking closure propagates, no memory corruption', "Fault enumeration x schedules: for each kernel / terminal the closure of every stage panics on every element position (also the predicate and the reduce operator), every interleaving of 2 workers for the map-only collects and PB(1)+DB(1..2) elsewhere, several workers panicking in one run, string and non-string payloads, faults in the middle / at the end of chunks of 1024 / 2048 elements, faults on unbounded sources (bounded-fair schedules), real unwinding through std::thread::scope; the call must panic too (never return, hang, abort: a dead child process or an exceeded horizon is a violation) and the drop table must show no double drop and no drop of never-initialised memory.", '7 C14'),
 'C15': ('parameters never change a result', "Configuration grid N in {0..8,33,100} x num_threads in {Auto,1,2,3,5,8,64} x chunk in {Auto, Exact(c), Min(c): c in 1..10, N-1, N, N+1, 64, 2^20, usize::MAX/2, usize::MAX/2+1, usize::MAX} x 10 terminals x one pipeline per kernel x known / unknown length, under both base schedules, in a build with overflow checks and debug assertions; each result compared with the reference and with the num_threads(1) run; collects into 136-byte and 64 KiB output types under Exact / Auto / Min chunk sizes; plus an exhaustive sweep of the parameter-resolution functions (calc_chunk_size, set/auto_num_threads, do_spawn, next_chunk_size).", '7 C15'),
 'C16': ('laziness', "Every one of the 32 builder transitions (all 95 chains) x 41 source constructors x setter positions (also on a worker thread of another computation; by-value iterators announcing 9 million elements): probes after construction and after every transformation read the closure-call, source-consumption, spawn and value-creation counters; any work before the terminal call is attributed to the transformation during which it appeared; with sequential parameters in effect at the terminal all of its work must run on the caller.", '7 C16'),
}

NOTE = ("Trusted: rustc/std, the scheduler + explorer + SchedIter wrapper (self-tested: seeded lost update found, replay determinism), the reference interpreter "
        "(validated against real std::iter chains by `mc selftest`), the documented 2-part patch of the vendored orx-concurrent-iter, the textual re-pointing of synchronisation primitives (tools/rewrite_repo.py; falls back to a plain copy if the re-pointed copy does not compile). Assumes linearizable "
        "dependency primitives and sequentially consistent memory; bounds are those reported per harness in the evidence.")

TECH = {
 'C09': 'bounded exhaustive enumeration of programs x inputs x configurations on the real code vs. reference model',
 'C12': 'explicit-state walk of builder automaton x parameter values on the real code',
 'C15': 'bounded exhaustive enumeration of the configuration grid on the real code (base schedules) + exhaustive function sweep',
 'C16': 'bounded exhaustive enumeration of programs x constructors x setter positions on the real code',
}

def main():
    hooks = subprocess.run(['git', '-C', '/repo', 'log', '--format=%H', '--grep', '^verif-hooks'], capture_output=True, text=True).stdout.split()
    checks = []
    for pid, (title, text, ref) in sorted(P.items()):
        checks.append({
            'property_id': pid,
            'quick_cmd': './check %s --tier quick' % pid,
            'thorough_cmd': './check %s --tier thorough' % pid,
            'evidence_file': '/verif/evidence/%s.json' % pid,
            'replay_cmd_template': './check %s --replay {path}' % pid,
            'engine': 'mc',
            'level_claimed': {'category': 'model_checking', 'text': text, 'design_ref': 'DESIGN.md §' + ref},
            'level_note': NOTE,
            'technique': TECH.get(pid, 'stateless model checking of the real code under a controlled scheduler (exhaustive / preemption- and delay-bounded DFS over schedules) + bounded program enumeration vs. reference model'),
        })
    m = {
        'version': 1,
        'setup_cmd': './setup.sh',
        'hooks': {
            'guard': 'cargo feature verif-hooks',
            'enable': 'every check mirrors /repo\'s working tree into /verif/target/repo_va (tools/rewrite_repo.py: std::sync::atomic / std::sync::Mutex used by orx-parallel\'s own source re-pointed at scheduling points; byte-identical otherwise) and the harness workspace /verif/mc depends on that mirror by path with features = ["verif-hooks"]; cargo rebuilds whatever the working tree changed',
            'baseline_off_cmd': 'cd /repo && cargo test --workspace --no-fail-fast --offline',
            'source_commits': list(reversed(hooks)),
            'add_only': True,
        },
        'engines': [{
            'name': 'mc',
            'path': '/verif/mc',
            'serves_properties': sorted(P.keys()),
            'kind_free_text': 'own CHESS-style controlled scheduler on real OS threads (sched), SchedIter wrapper + runner hooks as scheduling points, stateless DFS with preemption / delay bounding and bounded-waiting fairness; generated shard crates instantiate 95 chains x 21 sources; python orchestrator /verif/check',
        }],
        'checks': checks,
        'notes': 'known findings are listed in /verif/known_findings.json; see DESIGN.md',
        'not_applicable': [],
    }
    json.dump(m, open(os.path.join(os.path.dirname(os.path.dirname(os.path.abspath(__file__))), 'MANIFEST.json'), 'w'), indent=1)
    print('MANIFEST.json written:', len(checks), 'checks')

if __name__ == '__main__':
    main()
