#!/usr/bin/env python3
"""Creates / verifies /verif/vendor/orx-concurrent-iter-1.30.0.

The vendored crate is the registry source of orx-concurrent-iter 1.30.0 plus exactly:
  (1) one `pub use` line in src/iter/mod.rs exporting the BufferedChunk(X) traits (so that a wrapper
      iterator can be written outside the crate),
  (2) a spin hook: the four empty busy-wait arms `_ => {}` of ConIterOfIter / ConIterOfIterX call
      `crate::verif_spin()`, a function that does nothing unless a hook was installed.
Everything else (all other bytes of src/, README, licences) is identical; Cargo.toml loses its
dev-dependency / test / bench sections only.  Files are CRLF upstream: patched in binary mode.

usage: vendor_patch.py --write | --check
"""
import glob, os, sys

VENDOR = os.path.join(os.path.dirname(os.path.dirname(os.path.abspath(__file__))), 'vendor', 'orx-concurrent-iter-1.30.0')
KEEP_DIRS = ['src']
KEEP_FILES = ['Cargo.toml', 'README.md', 'LICENSE-APACHE', 'LICENSE-MIT']


def registry():
    c = glob.glob(os.path.expanduser('~/.cargo/registry/src/*/orx-concurrent-iter-1.30.0'))
    if not c:
        sys.exit('MACHINERY-ERROR registry source of orx-concurrent-iter 1.30.0 not found')
    return c[0]


SPIN_OLD = b'_ => {}\r\n'
SPIN_NEW = b'_ => crate::verif_spin(),\r\n'
MOD_OLD = b'mod buffered;\r\n'
MOD_NEW = (b'mod buffered;\r\n'
           b'pub use buffered::buffered_chunk::{BufferedChunk, BufferedChunkX}; // verif: unseal for external wrappers\r\n')
LIB_ADD = (b'\r\n// verif: spin hook (no-op unless installed)\r\n'
           b'static VERIF_SPIN: core::sync::atomic::AtomicPtr<()> = core::sync::atomic::AtomicPtr::new(core::ptr::null_mut());\r\n'
           b'/// Installs a function that is called on every busy-wait iteration of the by-value iterators.\r\n'
           b'pub fn verif_set_spin_hook(f: fn()) {\r\n'
           b'    VERIF_SPIN.store(f as *mut (), core::sync::atomic::Ordering::SeqCst);\r\n'
           b'}\r\n'
           b'#[inline]\r\n'
           b'pub(crate) fn verif_spin() {\r\n'
           b'    let p = VERIF_SPIN.load(core::sync::atomic::Ordering::Relaxed);\r\n'
           b'    if !p.is_null() {\r\n'
           b'        let f: fn() = unsafe { core::mem::transmute::<*mut (), fn()>(p) };\r\n'
           b'        f();\r\n'
           b'    }\r\n'
           b'}\r\n')


def transform(rel, data):
    if rel in ('src/iter/implementors/iter.rs', 'src/iter/implementors/iter_x.rs'):
        assert data.count(SPIN_OLD) == 2, rel
        return data.replace(SPIN_OLD, SPIN_NEW)
    if rel == 'src/iter/mod.rs':
        assert data.count(MOD_OLD) == 1
        return data.replace(MOD_OLD, MOD_NEW)
    if rel == 'src/lib.rs':
        return data + LIB_ADD
    if rel == 'Cargo.toml':
        txt = data.decode()
        nl = '\r\n' if '\r\n' in txt else '\n'
        out, skip = [], False
        for block in txt.split(nl + nl):
            head = block.lstrip().split(nl)[0]
            if head.startswith('[[test]]') or head.startswith('[[bench]]') or head.startswith('[dev-dependencies'):
                continue
            out.append(block)
        return (nl + nl).join(out).encode()
    return data


def expected():
    reg = registry()
    files = {}
    for f in KEEP_FILES:
        files[f] = transform(f, open(os.path.join(reg, f), 'rb').read())
    for d in KEEP_DIRS:
        for root, _, names in os.walk(os.path.join(reg, d)):
            for n in names:
                p = os.path.join(root, n)
                rel = os.path.relpath(p, reg)
                files[rel] = transform(rel, open(p, 'rb').read())
    return files


def main():
    mode = sys.argv[1] if len(sys.argv) > 1 else '--check'
    exp = expected()
    if mode == '--write':
        for rel, data in exp.items():
            p = os.path.join(VENDOR, rel)
            os.makedirs(os.path.dirname(p), exist_ok=True)
            with open(p, 'wb') as f:
                f.write(data)
        print('vendor written:', len(exp), 'files')
        return
    bad = []
    have = set()
    for root, _, names in os.walk(VENDOR):
        for n in names:
            rel = os.path.relpath(os.path.join(root, n), VENDOR)
            if rel == 'Cargo.lock':
                continue
            have.add(rel)
    for rel in sorted(have - set(exp)):
        bad.append('unexpected file ' + rel)
    for rel, data in exp.items():
        p = os.path.join(VENDOR, rel)
        if not os.path.exists(p):
            bad.append('missing ' + rel)
        elif open(p, 'rb').read() != data:
            bad.append('differs ' + rel)
    if bad:
        print('MACHINERY-ERROR vendor copy is not registry + documented patch:')
        for b in bad:
            print('  ', b)
        sys.exit(2)
    print('vendor ok:', len(exp), 'files identical to registry + documented 2-part patch')


if __name__ == '__main__':
    main()
