#!/usr/bin/env python3
"""Generates the chain table, the shard crates and the dispatch module of /verif/mc.

Chains = all strings of length 0..3 over {M,F,X,O} (map, filter, flat_map, filter_map->Option) = 85,
plus the 10 chains of length <= 2 over {M,F,X,O,R} that contain R (filter_map->Result) = 95.

Every (source kind, chain) pair that is instantiated is a *unit*; units are packed into NSHARD crates
(`/verif/mc/shards/sNN`) that cargo compiles in parallel. Each shard exposes one non-generic function
`run(case, settings, eff) -> Option<TermResult>`.

The builder automaton (8 states) is tracked here to know where `*_with_index` exists (concrete,
non-opaque types only) and which transitions are eager (keys for C16).

  gen.py            write everything
  gen.py --check    verify that the files on disk are what this script generates
"""
import itertools, json, os, sys

ROOT = os.path.join(os.path.dirname(os.path.dirname(os.path.abspath(__file__))), 'mc')
NSHARD = 16
ALPHA = 'MFXO'
TRANS = {  # state -> kind -> (new state, eager, opaque)
    'E':  {'M': ('M', 0, 0), 'F': ('F', 0, 0), 'X': ('X', 0, 0), 'O': ('O', 0, 0)},
    'M':  {'M': ('M', 0, 0), 'F': ('MF', 0, 0), 'X': ('X', 0, 0), 'O': ('O', 0, 0)},
    'F':  {'M': ('O', 0, 0), 'F': ('F', 0, 0), 'X': ('X', 1, 0), 'O': ('O', 0, 0)},
    'MF': {'M': ('O', 0, 0), 'F': ('MF', 0, 0), 'X': ('X', 1, 0), 'O': ('O', 0, 0)},
    'O':  {'M': ('O', 0, 0), 'F': ('OF', 0, 1), 'X': ('X', 1, 1), 'O': ('O', 0, 0)},
    'OF': {'M': ('O', 0, 0), 'F': ('OF', 0, 0), 'X': ('X', 1, 0), 'O': ('O', 0, 0)},
    'X':  {'M': ('X', 0, 0), 'F': ('XF', 0, 0), 'X': ('X', 0, 1), 'O': ('O', 1, 0)},
    'XF': {'M': ('M', 1, 0), 'F': ('XF', 0, 0), 'X': ('X', 1, 0), 'O': ('O', 1, 0)},
}
STATE_NAME = {'E': 'Empty', 'M': 'Map', 'F': 'Fil', 'MF': 'MapFil', 'O': 'FilterMap', 'OF': 'FilterMapFil', 'X': 'FlatMap', 'XF': 'FlatMapFil'}
KIND_NAME = {'M': 'map', 'F': 'filter', 'X': 'flat_map', 'O': 'filter_map', 'R': 'filter_map'}

# source kind -> (level, owned Tok items?, constructor in hcore::srcs)
SRCS = {
    'svec': (0, True), 'siter': (1, True), 'pvec': (1, True), 'piter': (1, True),
    'sslice': (2, False), 'srange': (2, False), 'pvecref': (2, False), 'pslice': (2, False),
    'psliceaspar': (2, False), 'parr3': (2, False), 'prange': (2, False),
    'pdeque': (2, True), 'pdequeref': (2, False), 'plist': (2, True), 'plistref': (2, False),
    'pbtree': (2, True), 'pbtreeref': (2, False), 'pheap': (2, True), 'pheapref': (2, False),
    'phash': (2, True), 'phashref': (2, False),
    'pclonedad': (2, False), 'pcopiedad': (2, False), 'pclonedit': (2, False),
    'pconvec': (2, True), 'pconslice': (2, False), 'pconrange': (2, False), 'pconiter': (2, True), 'pconiterpar': (2, True),
    'pconvecpre': (2, True), 'pconslicepre': (2, False), 'pconrangepre': (2, False), 'pconiterpre': (2, True), 'pconiterparpre': (2, True),
    'sbigvec': (2, False), 'sbigiter': (2, False), 'prangemax': (2, False), 'prangebig': (2, False), 'pfltcopied': (2, False), 'pfltcloned': (2, False),
    'pbtreemap': (2, False), 'pbtreemapref': (2, False), 'phashmap': (2, False), 'phashmapref': (2, False),
}
# sources whose constructor returns an opaque `impl Par` (no ParEmpty, no *_with_index): generic visitor path
ADAPTORS = {'pclonedad', 'pcopiedad', 'pclonedit', 'pfltcopied', 'pfltcloned'}
SRC_ENUM = {'svec': 'SVec', 'siter': 'SIter', 'pvec': 'PVec', 'piter': 'PIter', 'sslice': 'SSlice', 'srange': 'SRange',
            'pvecref': 'PVecRef', 'pslice': 'PSlice', 'psliceaspar': 'PSliceAsPar', 'parr3': 'PArr3', 'prange': 'PRange',
            'pdeque': 'PDeque', 'pdequeref': 'PDequeRef', 'plist': 'PList', 'plistref': 'PListRef', 'pbtree': 'PBTree',
            'pbtreeref': 'PBTreeRef', 'pheap': 'PHeap', 'pheapref': 'PHeapRef', 'phash': 'PHash', 'phashref': 'PHashRef',
            'pclonedad': 'PClonedAd', 'pcopiedad': 'PCopiedAd', 'pclonedit': 'PClonedIt', 'pconvec': 'PConVec', 'pconslice': 'PConSlice',
            'pconrange': 'PConRange', 'pconiter': 'PConIter', 'pconiterpar': 'PConIterPar', 'pbtreemap': 'PBTreeMap',
            'pbtreemapref': 'PBTreeMapRef', 'phashmap': 'PHashMap', 'phashmapref': 'PHashMapRef',
            'pconvecpre': 'PConVecPre', 'pconslicepre': 'PConSlicePre', 'pconrangepre': 'PConRangePre',
            'pconiterpre': 'PConIterPre', 'pconiterparpre': 'PConIterParPre', 'sbigvec': 'SBigVec', 'sbigiter': 'SBigIter', 'prangemax': 'PRangeMax', 'prangebig': 'PRangeBig', 'pfltcopied': 'PFltCopied', 'pfltcloned': 'PFltCloned'}


def chains():
    out = []
    for n in range(4):
        for c in itertools.product(ALPHA, repeat=n):
            out.append(''.join(c))
    for n in (1, 2):
        for c in itertools.product(ALPHA + 'R', repeat=n):
            if 'R' in c:
                out.append(''.join(c))
    return out


def walk(chain):
    st, opaque, steps = 'E', False, []
    for k in chain:
        kk = 'O' if k == 'R' else k
        ns, eager, op = TRANS[st][kk]
        opaque = opaque or bool(op)
        steps.append((st, k, ns, bool(eager), opaque))
        st = ns
    return steps, st, opaque


def cover_set(all_chains):
    cov = [c for c in all_chains if len(c) <= 2 and 'R' not in c]
    for pre in ('MF', 'OF', 'XF'):
        for k in ALPHA:
            cov.append(pre + k)
    return cov


CALL = {'M': 'map(cl::m({s}))', 'F': 'filter(cl::f({s}))', 'X': 'flat_map(cl::x({s}))', 'O': 'filter_map(cl::o({s}))', 'R': 'filter_map(cl::r({s}))'}


def body(chain, tail):
    lines = ['let p = st.step(0, p);']
    for s, k in enumerate(chain):
        lines.append('let p = p.%s;' % CALL[k].format(s=s))
        lines.append('let p = st.step(%d, p);' % (s + 1))
    lines.append(tail)
    return ' '.join(lines)


def std_body(chain):
    e = 'input.into_iter()'
    for s, k in enumerate(chain):
        if k == 'R':
            e += '.filter_map(|x| cl::r(%d)(x).ok())' % s
        elif k == 'X':
            e += '.flat_map(cl::x(%d))' % s
        else:
            e += '.' + CALL[k].format(s=s)
    return e + '.map(|t| t.id).collect()'


def has_index(c):
    _, st, opaque = walk(c)
    return st in ('E', 'M', 'F', 'MF') and not opaque


def build():
    allc = chains()
    idx = {c: i for i, c in enumerate(allc)}
    cov = cover_set(allc)
    small = [c for c in allc if len(c) <= 1]
    tok_subset = ['', 'M', 'F', 'MF', 'O', 'OF', 'X', 'XF', 'R', 'XM', 'FM']
    levels = {0: allc, 1: cov, 2: small}
    files = {}

    # ---- chaintab.rs (hcore) ----
    o = []
    w = o.append
    w('// @generated by /verif/tools/gen.py — do not edit')
    w('pub const N_CHAINS: usize = %d;' % len(allc))
    w('pub const CHAINS: [&str; N_CHAINS] = [%s];' % ', '.join('"%s"' % c for c in allc))
    w('/// transition cover: every one of the 32 builder transitions from a state reached by a real chain')
    w('pub const COVER: [usize; %d] = [%s];' % (len(cov), ', '.join(str(idx[c]) for c in cov)))
    w('pub const SMALL: [usize; %d] = [%s];' % (len(small), ', '.join(str(idx[c]) for c in small)))
    w('/// chains on which the provided reduce wrappers (fold, sum, min, ...) are instantiated')
    w('pub const TOK_SUBSET: [usize; %d] = [%s];' % (len(tok_subset), ', '.join(str(idx[c]) for c in tok_subset)))
    w('/// (final builder state, opaque return type somewhere, eager transitions as bit mask over steps, has *_with_index)')
    w('pub const INFO: [(&str, bool, u8, bool); N_CHAINS] = [')
    for c in allc:
        steps, st, opaque = walk(c)
        eager = sum(1 << i for i, s in enumerate(steps) if s[3])
        w('    ("%s", %s, %d, %s),' % (STATE_NAME[st], str(opaque).lower(), eager, str(has_index(c)).lower()))
    w('];')
    w('/// per chain, per step: "<Builder>.<transformation>" (the key of a transition)')
    w('pub fn transition_keys(cid: usize) -> Vec<&\'static str> {')
    w('    match cid {')
    for c in allc:
        steps, _, _ = walk(c)
        w('        %d => vec![%s],' % (idx[c], ', '.join('"%s.%s"' % (STATE_NAME[s[0]], KIND_NAME[s[1]]) for s in steps)))
    w('        _ => vec![],')
    w('    }')
    w('}')
    w('/// 0 = all chains, 1 = transition cover, 2 = depth <= 1')
    w('pub fn level_of(src: &str) -> u8 {')
    w('    match src {')
    for s, (lvl, _) in SRCS.items():
        w('        "%s" => %d,' % (s, lvl))
    w('        _ => 2,')
    w('    }')
    w('}')
    files['hcore/src/chaintab.rs'] = '\n'.join(o) + '\n'

    # ---- units and packing ----
    units = []
    for s, (lvl, owned) in SRCS.items():
        for c in levels[lvl]:
            lite = c not in cov and c not in small
            wgt = (1 + len(c)) * (6 if lite else 15) + (4 if owned and c in tok_subset else 0)
            units.append((wgt, s, c))
    units.sort(key=lambda u: (-u[0], u[1], u[2]))
    bins = [[0, []] for _ in range(NSHARD)]
    for wgt, s, c in units:
        b = min(bins, key=lambda b: b[0])
        b[0] += wgt
        b[1].append((s, c))

    shard_of = {}
    for k, (tot, us) in enumerate(bins):
        name = 's%02d' % k
        o = []
        w = o.append
        w('// @generated by /verif/tools/gen.py — do not edit (weight %d)' % tot)
        w('#![allow(clippy::all, unused_imports, dead_code, unused_variables, non_camel_case_types)]')
        w('use hcore::case::{termv, Case, Eff, Src};')
        w('use hcore::closures as cl;')
        w('use hcore::settings::Settings;')
        w('use hcore::srcs;')
        w('use hcore::tok::{Item, Tok};')
        w('use hcore::visit::{Term, TermResult, Visit, VisitTok};')
        w('use orx_concurrent_iter::ConcurrentIter;')
        w('use orx_parallel::verif::ParEmpty;')
        w('use orx_parallel::Par;')
        w('')
        by_src = {}
        for s, c in us:
            by_src.setdefault(s, []).append(c)
            shard_of[(s, c)] = k
        for s in sorted(by_src):
            cs = sorted(by_src[s], key=lambda c: idx[c])
            owned = SRCS[s][1]
            if s in ADAPTORS:
                w('fn g_%s<P, V>(cid: usize, p: P, st: &Settings, v: V) -> V::Out' % s)
                w('where P: Par, P::Item: Item, V: Visit,')
                w('{')
                w('    match cid {')
                for c in cs:
                    w('        %d => { %s }' % (idx[c], body(c, 'v.visit(p)')))
                w('        _ => unreachable!(),')
                w('    }')
                w('}')
                w('struct K_%s<\'a>(&\'a Case, &\'a Settings);' % s)
                w('impl srcs::ParK for K_%s<\'_> {' % s)
                w('    fn call<P: Par>(self, p: P) -> TermResult where P::Item: Item {')
                w('        match self.0.term {')
                w('            Term::FindIdx | Term::FirstIdx => TermResult::NA,')
                w('            t if t.needs_tok() => TermResult::NA,')
                w('            _ => g_%s(self.0.chain, p, self.1, termv(self.0)),' % s)
                w('        }')
                w('    }')
                w('}')
                w('')
                continue
            w('fn c_%s<I, V>(cid: usize, p: ParEmpty<I>, st: &Settings, v: V) -> V::Out' % s)
            w('where I: ConcurrentIter, I::Item: Item, V: Visit,')
            w('{')
            w('    match cid {')
            for c in cs:
                lite = c not in cov and c not in small
                w('        %d => { %s }' % (idx[c], body(c, 'v.visit_lite(p)' if lite else 'v.visit(p)')))
            w('        _ => unreachable!(),')
            w('    }')
            w('}')
            w('fn i_%s<I>(cid: usize, p: ParEmpty<I>, st: &Settings, which: u8) -> Option<Option<(usize, u64)>>' % s)
            w('where I: ConcurrentIter, I::Item: Item,')
            w('{')
            w('    match cid {')
            for c in cs:
                if has_index(c):
                    tail = 'Some(match which { 0 => p.find_with_index(cl::pred()), _ => p.first_with_index() }.map(|(i, x)| (i, x.id())))'
                    w('        %d => { %s }' % (idx[c], body(c, tail)))
            w('        _ => None,')
            w('    }')
            w('}')
            toks = [c for c in cs if c in tok_subset] if owned else []
            if toks:
                w('fn t_%s<I, V>(cid: usize, p: ParEmpty<I>, st: &Settings, v: V) -> Option<V::Out>' % s)
                w('where I: ConcurrentIter<Item = Tok>, V: VisitTok,')
                w('{')
                w('    match cid {')
                for c in toks:
                    w('        %d => { %s }' % (idx[c], body(c, 'Some(v.visit(p))')))
                w('        _ => None,')
                w('    }')
                w('}')
            bound = 'I: ConcurrentIter<Item = Tok>' if owned else 'I: ConcurrentIter, I::Item: Item'
            w('fn go_%s<I>(case: &Case, st: &Settings, p: ParEmpty<I>) -> TermResult' % s)
            w('where %s,' % bound)
            w('{')
            w('    match case.term {')
            w('        Term::FindIdx | Term::FirstIdx => {')
            w('            let which = if case.term == Term::FindIdx { 0 } else { 1 };')
            w('            match i_%s(case.chain, p, st, which) { None => TermResult::NA, Some(x) => TermResult::Found(x.map(|(i, id)| (Some(i), id))) }' % s)
            w('        }')
            if toks:
                w('        t if t.needs_tok() => t_%s(case.chain, p, st, termv(case)).unwrap_or(TermResult::NA),' % s)
            else:
                w('        t if t.needs_tok() => TermResult::NA,')
            w('        _ => c_%s(case.chain, p, st, termv(case)),' % s)
            w('    }')
            w('}')
            w('')
        w('pub fn run(case: &Case, st: &Settings, eff: &mut Eff) -> Option<TermResult> {')
        w('    match (case.src, case.chain) {')
        for s in sorted(by_src):
            cs = sorted(idx[c] for c in by_src[s])
            if s in ADAPTORS:
                w('        (Src::%s, %s) => Some(srcs::%s(case, eff, K_%s(case, st))),' % (SRC_ENUM[s], ' | '.join(map(str, cs)), s, s))
            else:
                w('        (Src::%s, %s) => Some(srcs::%s(case, eff, |p| go_%s(case, st, p))),' % (SRC_ENUM[s], ' | '.join(map(str, cs)), s, s))
        w('        _ => None,')
        w('    }')
        w('}')
        files['shards/%s/src/lib.rs' % name] = '\n'.join(o) + '\n'
        files['shards/%s/Cargo.toml' % name] = '''[package]
name = "%s"
version = "0.1.0"
edition = "2021"

[dependencies]
hcore = { path = "../../hcore" }
orx-parallel = { path = "../../../target/repo_va", features = ["verif-hooks"] }
orx-concurrent-iter = "=1.30.0"
''' % name

    # ---- dispatch.rs (harness) ----
    o = []
    w = o.append
    w('// @generated by /verif/tools/gen.py — do not edit')
    w('use hcore::case::{Case, Eff};')
    w('use hcore::closures as cl;')
    w('use hcore::settings::Settings;')
    w('use hcore::tok::Tok;')
    w('use hcore::visit::TermResult;')
    w('')
    w('/// builds source + chain and runs the terminal of `case` (in whichever shard crate instantiates it)')
    w('pub fn body(case: &Case, st: &Settings, eff: &mut Eff) -> TermResult {')
    for k in range(NSHARD):
        w('    if let Some(r) = s%02d::run(case, st, eff) { return r; }' % k)
    w('    panic!("MACHINERY: case not instantiated: {}", case.encode())')
    w('}')
    w('')
    w('/// the same chain on real std::iter adaptors (validates the interpreter in hcore::model)')
    w('pub fn std_chain(cid: usize, input: Vec<Tok>) -> Vec<u64> {')
    w('    match cid {')
    for c in allc:
        w('        %d => %s,' % (idx[c], std_body(c)))
    w('        _ => panic!("MACHINERY: no such chain"),')
    w('    }')
    w('}')
    files['harness/src/dispatch.rs'] = '\n'.join(o) + '\n'
    deps = ''.join('s%02d = { path = "../shards/s%02d" }\n' % (k, k) for k in range(NSHARD))
    files['harness/Cargo.toml'] = '''[package]
name = "harness"
version = "0.1.0"
edition = "2021"

[dependencies]
sched = { path = "../sched" }
vatomic = { path = "../vatomic" }
hcore = { path = "../hcore" }
orx-parallel = { path = "../../target/repo_va", features = ["verif-hooks"] }
orx-concurrent-iter = "=1.30.0"
''' + deps + '''
[[bin]]
name = "mc"
path = "src/main.rs"
'''
    meta = {'chains': allc, 'cover': cov, 'small': small, 'tok_subset': tok_subset,
            'levels': {s: v[0] for s, v in SRCS.items()}, 'shard_weights': [b[0] for b in bins]}
    files['../tools/chains.json'] = json.dumps(meta, indent=0) + '\n'
    return files


def main():
    files = build()
    check = len(sys.argv) > 1 and sys.argv[1] == '--check'
    bad = []
    for rel, data in files.items():
        p = os.path.normpath(os.path.join(ROOT, rel))
        if check:
            if not os.path.exists(p) or open(p).read() != data:
                bad.append(rel)
        else:
            os.makedirs(os.path.dirname(p), exist_ok=True)
            if not os.path.exists(p) or open(p).read() != data:
                open(p, 'w').write(data)
    if check:
        if bad:
            print('MACHINERY-ERROR generated files differ from gen.py output:', bad)
            sys.exit(2)
        print('generated files up to date (%d files)' % len(files))
    else:
        print('generated %d files' % len(files))


if __name__ == '__main__':
    main()
