#!/bin/sh
# mirrors /repo's working tree (tools/rewrite_repo.py) and builds the harness workspace
cd "$(dirname "$0")/.." && python3 tools/rewrite_repo.py && cd mc && cargo build --release --offline 2>&1 | grep -E '^(error|warning: unused)' -A12 | head -40
