#!/usr/bin/env python3
"""tools/rewrite_repo.py [--plain]

Mirrors /repo (Cargo.toml + src/) into /verif/target/repo_va, the copy the harness workspace compiles. Unless
--plain is given, the copy re-points the synchronisation primitives used by orx-parallel's *own* source at the
`vatomic` crate (same API, every operation a scheduling point):

    std::sync::atomic::*   core::sync::atomic::*   ->  ::vatomic::*
    std::sync::Mutex                               ->  ::vatomic::Mutex
    std::time::Instant                             ->  ::vatomic::time::Instant   (a virtual clock: every reading advances it by a
                                                       step the case decides - 0 ns or 1 s - so that wall-clock dependent
                                                       branches of the library are enumerated, not left to the machine's speed)

(direct paths and `use std::sync::{atomic::{..}, Mutex, ..}` groups). Nothing else is changed; files are only
written when their content changes, so cargo rebuilds exactly what /repo's working tree changed. The pinned
tree uses none of these primitives in its own code (they are all in the dependencies), so on the unchanged
tree the copy is byte-identical to /repo apart from one dependency line in Cargo.toml.
"""
import os, re, shutil, sys

SRC = '/repo'
VERIF = os.path.dirname(os.path.dirname(os.path.abspath(__file__)))
DST = os.path.join(VERIF, 'target', 'repo_va')


def split_top(s):
    out, depth, cur = [], 0, ''
    for ch in s:
        if ch == '{':
            depth += 1
        elif ch == '}':
            depth -= 1
        if ch == ',' and depth == 0:
            out.append(cur)
            cur = ''
        else:
            cur += ch
    if cur.strip():
        out.append(cur)
    return [x.strip() for x in out if x.strip()]


def rewrite_groups(text):
    # use std::sync::{ ... };  with nested braces
    res, i = '', 0
    pat = re.compile(r'(pub(?:\([a-z:]+\))?\s+)?use\s+(?:::)?(?:std|core)::sync::\{')
    while True:
        m = pat.search(text, i)
        if not m:
            res += text[i:]
            break
        j, depth = m.end(), 1
        while j < len(text) and depth:
            depth += {'{': 1, '}': -1}.get(text[j], 0)
            j += 1
        end = text.find(';', j)
        if depth or end < 0:
            res += text[i:m.end()]
            i = m.end()
            continue
        vis = m.group(1) or ''
        keep, moved = [], []
        for it in split_top(text[m.end():j - 1]):
            if it == 'atomic' or it.startswith('atomic::') or it.startswith('atomic '):
                moved.append('%suse ::vatomic%s;' % (vis, it[len('atomic'):] if it != 'atomic' else ' as atomic'))
            elif it == 'Mutex':
                moved.append('%suse ::vatomic::Mutex;' % vis)
            else:
                keep.append(it)
        res += text[i:m.start()]
        if keep:
            res += '%suse std::sync::{%s};' % (vis, ', '.join(keep))
        res += ' '.join(moved)
        i = end + 1
    return res


def rewrite_time_groups(text):
    # use std::time::{Duration, Instant};  ->  Instant from vatomic::time (a clock the harness decides), the rest from std
    def repl(m):
        vis = m.group(1) or ''
        items = [x.strip() for x in m.group(2).split(',') if x.strip()]
        keep = [x for x in items if x != 'Instant']
        out = ''
        if keep:
            out += '%suse std::time::{%s};' % (vis, ', '.join(keep))
        if 'Instant' in items:
            out += ' %suse ::vatomic::time::Instant;' % vis
        return out
    return re.sub(r'(pub(?:\([a-z:]+\))?\s+)?use\s+(?:::)?std::time::\{([^{}]*)\}\s*;', repl, text)


def rewrite(text):
    text = rewrite_groups(text)
    text = rewrite_time_groups(text)
    text = re.sub(r'(?<![A-Za-z0-9_:])(?:::)?std::time::Instant\b', '::vatomic::time::Instant', text)
    text = re.sub(r'\buse\s+(?:::)?(?:std|core)::sync::atomic\s*;', 'use ::vatomic as atomic;', text)
    text = re.sub(r'(?<![A-Za-z0-9_:])(?:::)?(?:std|core)::sync::atomic\b', '::vatomic', text)
    text = re.sub(r'(?<![A-Za-z0-9_:])(?:::)?std::sync::Mutex\b', '::vatomic::Mutex', text)
    return text


def put(path, data):
    os.makedirs(os.path.dirname(path), exist_ok=True)
    if os.path.exists(path) and open(path, 'rb').read() == data:
        return False
    with open(path, 'wb') as f:
        f.write(data)
    return True


def main():
    plain = '--plain' in sys.argv
    changed, rewritten, want = 0, 0, set()
    cargo = open(os.path.join(SRC, 'Cargo.toml')).read()
    if 'vatomic' not in cargo:
        cargo = cargo.replace('[dependencies]\n', '[dependencies]\nvatomic = { path = "../../mc/vatomic" }\n', 1)
    # target sections point at files that are not mirrored (benches/, tests/): drop them
    cargo = re.sub(r'(?ms)^\[\[(?:bench|test|example)\]\].*?(?=^\[|\Z)', '', cargo)
    changed += put(os.path.join(DST, 'Cargo.toml'), cargo.encode())
    want.add('Cargo.toml')
    for extra in ('README.md',):
        p = os.path.join(SRC, extra)
        if os.path.exists(p):
            changed += put(os.path.join(DST, extra), open(p, 'rb').read())
            want.add(extra)
    for root, _, names in os.walk(os.path.join(SRC, 'src')):
        for n in names:
            p = os.path.join(root, n)
            rel = os.path.relpath(p, SRC)
            want.add(rel)
            data = open(p, 'rb').read()
            if n.endswith('.rs') and not plain and rel != 'src/verif.rs':
                new = rewrite(data.decode()).encode()
                rewritten += new != data
                data = new
            changed += put(os.path.join(DST, rel), data)
    for root, _, names in os.walk(DST):
        for n in names:
            rel = os.path.relpath(os.path.join(root, n), DST)
            if rel not in want and not rel.startswith('target') and rel != 'Cargo.lock':
                os.remove(os.path.join(root, n))
                changed += 1
    print('repo copy: %d file(s) updated, %d file(s) with re-pointed synchronisation primitives%s' % (changed, rewritten, ' (plain copy)' if plain else ''))


if __name__ == '__main__':
    main()
