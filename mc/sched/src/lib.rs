//! Controlled scheduler (CHESS style) for real OS threads + stateless DFS explorer.
//!
//! Exactly one registered thread runs at any time. A thread gives up the right to run only at a
//! *scheduling point* (`point`, `spin`, worker begin/end, join, leave-scope). At every point the
//! scheduler — not the OS — picks the next thread from the enabled set, either from a forced prefix of
//! choices (replay) or the default choice 0. The sequence of choices determines the execution.
//!
//! Threads are identified by spawn order (0 = the thread that called `run_one`).

use std::cell::Cell;
use std::collections::HashSet;
use std::sync::{Condvar, Mutex, MutexGuard};
use std::time::{Duration, Instant};

pub mod explore;

#[derive(Clone, Copy, PartialEq, Eq, Debug)]
pub enum St {
    Running,
    AtPoint,
    /// disabled until `progress` exceeds the stored value
    Spinning(u64),
    BlockedJoin(usize),
    BlockedAll,
    Finished,
}

#[derive(Clone, Copy, PartialEq, Eq, Debug, Hash)]
#[repr(u8)]
pub enum OpKind {
    Begin = 1,
    End = 2,
    Join = 3,
    Leave = 4,
    Len = 5,
    Pull = 6,
    Skip = 7,
    Closure = 8,
    SrcNext = 9,
    Spin = 10,
    User = 11,
}

impl OpKind {
    pub fn name(self) -> &'static str {
        match self {
            OpKind::Begin => "begin",
            OpKind::End => "end",
            OpKind::Join => "join",
            OpKind::Leave => "leave",
            OpKind::Len => "len",
            OpKind::Pull => "pull",
            OpKind::Skip => "skip",
            OpKind::Closure => "closure",
            OpKind::SrcNext => "srcnext",
            OpKind::Spin => "spin",
            OpKind::User => "user",
        }
    }
}

#[derive(Clone, Copy, Debug, PartialEq, Eq)]
pub struct LogEntry {
    pub thread: u16,
    pub kind: OpKind,
    pub a: i64,
    pub b: i64,
    /// results, filled in after the operation executed (i64::MIN = not set)
    pub r0: i64,
    pub r1: i64,
}

pub const UNSET: i64 = i64::MIN;

#[derive(Clone, Copy, PartialEq, Eq, Debug)]
pub enum Order {
    /// [current if enabled] ++ others ascending; deviation = preemption
    Pb,
    /// cyclic order starting after current; deviation = delay
    Db,
}

#[derive(Clone, Debug)]
pub struct Config {
    pub order: Order,
    /// bounded waiting: 0 = off
    pub fair_k: u32,
    /// max decisions per execution
    pub horizon: u32,
    /// slow spawner (delay-bounded order only): thread 0 takes its turn in the cyclic order only every
    /// `slow0`-th time while other threads are enabled (1 = plain round robin)
    pub slow0: u32,
    /// false: a forced choice that is out of range falls back to choice 0 and marks the record as
    /// diverged instead of being a machinery error (used when re-running a *violating* schedule)
    pub strict: bool,
}

impl Default for Config {
    fn default() -> Self {
        Config { order: Order::Pb, fair_k: 0, horizon: 20_000, slow0: 1, strict: true }
    }
}

#[derive(Clone, Copy, Debug, PartialEq, Eq)]
pub enum Fatal {
    Horizon,
    Deadlock,
}

#[derive(Clone, Copy, Debug)]
pub struct Decision {
    pub n_enabled: u8,
    pub cur_enabled: bool,
    pub choice: u8,
    pub chosen: u16,
    /// hash of the abstract state at the decision (before the chosen thread runs)
    pub state: u64,
    /// 128-bit key of (abstract state, yielding thread, scheduler-internal counters): equal keys have equal futures
    pub key: u128,
}

#[derive(Clone, Debug, Default)]
pub struct ExecRecord {
    pub decisions: Vec<Decision>,
    pub log: Vec<LogEntry>,
    pub n_threads: usize,
    pub max_flagged: u32,
    pub fatal: Option<Fatal>,
    pub final_state: u64,
    /// a forced choice was out of range (non-strict replay only)
    pub diverged: bool,
}

impl ExecRecord {
    pub fn choices(&self) -> Vec<u8> {
        self.decisions.iter().map(|d| d.choice).collect()
    }
}

struct Exec {
    cfg: Config,
    st: Vec<St>,
    announced: usize,
    arrived: usize,
    current: usize,
    prefix: Vec<u8>,
    decisions: Vec<Decision>,
    progress: u64,
    from_spin: Vec<bool>,
    waited: Vec<u32>,
    flagged: Vec<bool>,
    max_flagged: u32,
    log: Vec<LogEntry>,
    last_log: Vec<usize>,
    thash: Vec<u64>,
    thash2: Vec<u64>,
    /// the thread that spawned each thread
    parent: Vec<usize>,
    skip0: u32,
    diverged: bool,
    last_event: Instant,
    fatal: Option<Fatal>,
}

static SCHED: Mutex<Option<Exec>> = Mutex::new(None);
static CV: Condvar = Condvar::new();

/// installed by the harness: called (with the lock released) when an execution cannot continue
/// (horizon / deadlock). Must not return.
static FATAL_HANDLER: Mutex<Option<fn(Fatal, ExecRecord) -> !>> = Mutex::new(None);

thread_local! {
    static TID: Cell<usize> = const { Cell::new(usize::MAX) };
}

const NONE: usize = usize::MAX;
/// seconds without a scheduling point after which an execution is given up as a machinery error (default 60;
/// cases that run billions of closure-free iterations between two points raise it)
pub static WATCHDOG_S: std::sync::atomic::AtomicU64 = std::sync::atomic::AtomicU64::new(60);

fn lock() -> MutexGuard<'static, Option<Exec>> {
    SCHED.lock().unwrap_or_else(|e| e.into_inner())
}

pub fn set_fatal_handler(f: fn(Fatal, ExecRecord) -> !) {
    *FATAL_HANDLER.lock().unwrap_or_else(|e| e.into_inner()) = Some(f);
}

pub fn machinery_error(msg: &str) -> ! {
    println!("MACHINERY-ERROR {}", msg);
    eprintln!("MACHINERY-ERROR {}", msg);
    std::process::exit(2);
}

#[inline]
fn mix(h: u64, v: u64) -> u64 {
    // splitmix-style combine
    let mut z = h ^ v.wrapping_add(0x9E37_79B9_7F4A_7C15).wrapping_add(h << 6).wrapping_add(h >> 2);
    z = (z ^ (z >> 30)).wrapping_mul(0xBF58_476D_1CE4_E5B9);
    z = (z ^ (z >> 27)).wrapping_mul(0x94D0_49BB_1331_11EB);
    z ^ (z >> 31)
}

#[inline]
fn mix2(h: u64, v: u64) -> u64 {
    let mut z = (h.rotate_left(23) ^ v).wrapping_mul(0xD6E8_FEB8_6659_FD93).wrapping_add(0xA076_1D64_78BD_642F);
    z = (z ^ (z >> 32)).wrapping_mul(0xE703_7ED1_A0B4_28DB);
    z ^ (z >> 29)
}

pub fn hash64(v: u64) -> u64 {
    mix(0x1234_5678_9ABC_DEF1, v)
}

impl Exec {
    fn enabled(&self, t: usize) -> bool {
        match self.st[t] {
            St::Running | St::AtPoint => true,
            St::Spinning(p) => self.progress > p,
            St::BlockedJoin(k) => self.st[k] == St::Finished,
            // leaving a thread scope: every thread spawned by this thread has finished (scopes may nest)
            St::BlockedAll => (1..self.st.len()).all(|k| self.parent[k] != t || self.st[k] == St::Finished),
            St::Finished => false,
        }
    }

    fn state_hash(&self) -> u64 {
        let mut h = 0xABCD_EF01u64;
        for t in 0..self.st.len() {
            let k = match self.st[t] {
                St::Running => 1,
                St::AtPoint => 2,
                St::Spinning(_) => 3,
                St::BlockedJoin(k) => 16 + k as u64,
                St::BlockedAll => 5,
                St::Finished => 6,
            };
            h = mix(h, self.thash[t]);
            h = mix(h, k);
        }
        h
    }

    fn push_log(&mut self, t: usize, kind: OpKind, a: i64, b: i64) {
        self.last_log[t] = self.log.len();
        self.log.push(LogEntry { thread: t as u16, kind, a, b, r0: UNSET, r1: UNSET });
        let h = mix(self.thash[t], kind as u64);
        let h = mix(h, a as u64);
        self.thash[t] = mix(h, b as u64);
        let h = mix2(self.thash2[t], kind as u64);
        let h = mix2(h, a as u64);
        self.thash2[t] = mix2(h, b as u64);
    }

    fn state_key(&self, me: usize) -> u128 {
        let mut h = 0x1357_9BDFu64;
        for t in 0..self.st.len() {
            let k = match self.st[t] {
                St::Running => 1,
                St::AtPoint => 2,
                St::Spinning(p) => 3 + 8 * (self.progress > p) as u64,
                St::BlockedJoin(k) => 16 + k as u64,
                St::BlockedAll => 5,
                St::Finished => 6,
            };
            h = mix2(h, self.thash2[t]);
            h = mix2(h, k);
            if self.cfg.fair_k > 0 {
                h = mix2(h, self.waited[t] as u64);
            }
            h = mix2(h, self.flagged[t] as u64);
        }
        h = mix2(h, me as u64);
        h = mix2(h, self.skip0 as u64);
        ((self.state_hash() as u128) << 64) | h as u128
    }

    fn record(&self) -> ExecRecord {
        ExecRecord {
            decisions: self.decisions.clone(),
            log: self.log.clone(),
            n_threads: self.st.len(),
            max_flagged: self.max_flagged,
            fatal: self.fatal,
            final_state: self.state_hash(),
            diverged: self.diverged,
        }
    }
}

fn wait_cv<'a>(g: MutexGuard<'a, Option<Exec>>) -> MutexGuard<'a, Option<Exec>> {
    let (g, to) = CV.wait_timeout(g, Duration::from_millis(1000)).unwrap_or_else(|e| e.into_inner());
    if to.timed_out() {
        if let Some(ex) = g.as_ref() {
            let limit = WATCHDOG_S.load(std::sync::atomic::Ordering::SeqCst);
            if ex.last_event.elapsed() > Duration::from_secs(limit) {
                machinery_error(&format!("watchdog: the running thread reached no scheduling point for {} s", limit));
            }
        }
    }
    g
}

fn fatal(mut g: MutexGuard<'static, Option<Exec>>, f: Fatal) -> ! {
    let rec = {
        let ex = g.as_mut().unwrap();
        ex.fatal = Some(f);
        ex.record()
    };
    drop(g);
    let h = *FATAL_HANDLER.lock().unwrap_or_else(|e| e.into_inner());
    match h {
        Some(h) => h(f, rec),
        None => machinery_error(&format!("fatal {:?} with no handler installed", f)),
    }
}

/// The running thread `me` gives up control with new status `new`; `op` is the operation it will
/// execute when resumed (logged at resume). Returns when `me` is scheduled again (never for Finished).
fn do_yield(mut g: MutexGuard<'static, Option<Exec>>, me: usize, new: St, op: Option<(OpKind, i64, i64)>) {
    // newly spawned workers must have parked at their begin point, otherwise the enabled set would
    // depend on OS start-up latency
    loop {
        let ex = g.as_ref().unwrap();
        if ex.arrived >= ex.announced {
            break;
        }
        g = wait_cv(g);
    }
    let ex = g.as_mut().unwrap();
    debug_assert_eq!(ex.current, me);
    ex.last_event = Instant::now();
    let new = match new {
        St::Spinning(_) => {
            if !ex.from_spin[me] {
                ex.progress += 1;
            }
            St::Spinning(ex.progress)
        }
        s => {
            ex.progress += 1;
            s
        }
    };
    ex.st[me] = new;
    if new == St::Finished {
        ex.push_log(me, OpKind::End, 0, 0);
    }

    // enabled list in canonical order
    let n = ex.st.len();
    let mut list: Vec<usize> = Vec::with_capacity(n);
    match ex.cfg.order {
        Order::Pb => {
            if ex.enabled(me) {
                list.push(me);
            }
            for t in 0..n {
                if t != me && ex.enabled(t) {
                    list.push(t);
                }
            }
        }
        Order::Db => {
            for i in 1..=n {
                let t = (me + i) % n;
                if ex.enabled(t) {
                    list.push(t);
                }
            }
            // slow spawner: thread 0 passes its turn slow0-1 times while others are enabled
            if ex.cfg.slow0 > 1 && list.len() > 1 && list[0] == 0 {
                if ex.skip0 + 1 < ex.cfg.slow0 {
                    ex.skip0 += 1;
                    list.rotate_left(1);
                } else {
                    ex.skip0 = 0;
                }
            }
        }
    }
    if list.is_empty() {
        if ex.st.iter().all(|s| *s == St::Finished) {
            // cannot happen: thread 0 never finishes through a yield
            machinery_error("all threads finished inside a yield");
        }
        fatal(g, Fatal::Deadlock);
    }
    let cur_enabled = list.contains(&me);
    // bounded waiting
    if ex.cfg.fair_k > 0 {
        let mut best: Option<usize> = None;
        for &t in &list {
            if ex.waited[t] >= ex.cfg.fair_k {
                match best {
                    None => best = Some(t),
                    Some(b) => {
                        if ex.waited[t] > ex.waited[b] {
                            best = Some(t)
                        }
                    }
                }
            }
        }
        if let Some(b) = best {
            list = vec![b];
        }
    }
    let d = ex.decisions.len();
    let c = if d < ex.prefix.len() {
        let mut c = ex.prefix[d] as usize;
        if c >= list.len() && !ex.cfg.strict {
            ex.diverged = true;
            c = 0;
        }
        if c >= list.len() {
            machinery_error(&format!(
                "replay divergence: decision {} wants choice {} but only {} threads are enabled",
                d,
                c,
                list.len()
            ));
        }
        c
    } else {
        0
    };
    let chosen = list[c];
    let state = ex.state_hash();
    let key = ex.state_key(me);
    ex.decisions.push(Decision {
        n_enabled: list.len() as u8,
        cur_enabled,
        choice: c as u8,
        chosen: chosen as u16,
        state,
        key,
    });
    for t in 0..n {
        if t == chosen {
            ex.waited[t] = 0;
        } else if ex.enabled(t) {
            ex.waited[t] += 1;
        } else {
            ex.waited[t] = 0;
        }
    }
    let nf = ex.flagged.iter().filter(|x| **x).count() as u32;
    if nf > ex.max_flagged {
        ex.max_flagged = nf;
    }
    if ex.decisions.len() as u32 > ex.cfg.horizon {
        fatal(g, Fatal::Horizon);
    }
    ex.current = chosen;
    CV.notify_all();
    if new == St::Finished {
        return;
    }
    // wait to be scheduled again
    loop {
        let ex = g.as_mut().unwrap();
        if ex.current == me {
            ex.from_spin[me] = matches!(ex.st[me], St::Spinning(_));
            ex.st[me] = St::Running;
            if let Some((k, a, b)) = op {
                ex.push_log(me, k, a, b);
            }
            return;
        }
        g = wait_cv(g);
    }
}

/// Scheduling point immediately before a visible operation of the calling thread.
/// No-op for threads that are not part of a controlled execution.
pub fn point(kind: OpKind, a: i64, b: i64) -> usize {
    let me = TID.with(|t| t.get());
    if me == NONE {
        return usize::MAX;
    }
    let g = lock();
    if g.is_none() {
        return usize::MAX;
    }
    do_yield(g, me, St::AtPoint, Some((kind, a, b)));
    let g = lock();
    g.as_ref().map(|ex| ex.last_log[me]).unwrap_or(usize::MAX)
}

/// Attach results to the logged operation `idx` (returned by `point`) of the calling thread.
pub fn set_result_at(idx: usize, r0: i64, r1: i64) {
    let me = TID.with(|t| t.get());
    if me == NONE || idx == usize::MAX {
        return;
    }
    let mut g = lock();
    if let Some(ex) = g.as_mut() {
        if idx < ex.log.len() && ex.log[idx].thread as usize == me {
            ex.log[idx].r0 = r0;
            ex.log[idx].r1 = r1;
            let h = mix(ex.thash[me], r0 as u64);
            ex.thash[me] = mix(h, r1 as u64);
            let h = mix2(ex.thash2[me], r0 as u64);
            ex.thash2[me] = mix2(h, r1 as u64);
        }
    }
}

/// Log an operation of the calling thread without yielding.
pub fn note(kind: OpKind, a: i64, b: i64) {
    let me = TID.with(|t| t.get());
    if me == NONE {
        return;
    }
    let mut g = lock();
    if let Some(ex) = g.as_mut() {
        ex.push_log(me, kind, a, b);
    }
}

/// Attach results to the last logged operation of the calling thread.
pub fn set_result(r0: i64, r1: i64) {
    let me = TID.with(|t| t.get());
    if me == NONE {
        return;
    }
    let mut g = lock();
    if let Some(ex) = g.as_mut() {
        let i = ex.last_log[me];
        if i < ex.log.len() && ex.log[i].thread as usize == me {
            ex.log[i].r0 = r0;
            ex.log[i].r1 = r1;
            let h = mix(ex.thash[me], r0 as u64);
            ex.thash[me] = mix(h, r1 as u64);
            let h = mix2(ex.thash2[me], r0 as u64);
            ex.thash2[me] = mix2(h, r1 as u64);
        }
    }
}

/// Busy-wait iteration: the caller is disabled until another thread made progress.
pub fn spin() {
    let me = TID.with(|t| t.get());
    if me == NONE {
        std::hint::spin_loop();
        return;
    }
    let g = lock();
    if g.is_none() {
        return;
    }
    do_yield(g, me, St::Spinning(0), Some((OpKind::Spin, 0, 0)));
}

/// Per-thread flag (e.g. "inside a user closure"); the scheduler records the maximal number of
/// simultaneously flagged threads over all decisions.
pub fn set_flag(v: bool) {
    let me = TID.with(|t| t.get());
    if me == NONE {
        return;
    }
    let mut g = lock();
    if let Some(ex) = g.as_mut() {
        ex.flagged[me] = v;
    }
}

/// Logical id of the calling thread inside a controlled execution.
pub fn current_thread() -> Option<usize> {
    let me = TID.with(|t| t.get());
    if me == NONE {
        None
    } else {
        Some(me)
    }
}

pub fn active() -> bool {
    TID.with(|t| t.get()) != NONE && lock().is_some()
}

// ---- hooks for thread creation / join ----

/// Spawner, before the OS thread is created. Returns the logical id of the new worker.
pub fn before_spawn() -> usize {
    let me = TID.with(|t| t.get());
    let mut g = lock();
    match g.as_mut() {
        Some(ex) if me != NONE => {
            let id = ex.st.len();
            ex.st.push(St::AtPoint);
            ex.from_spin.push(false);
            ex.waited.push(0);
            ex.flagged.push(false);
            ex.last_log.push(usize::MAX);
            ex.thash.push(hash64(id as u64));
            ex.thash2.push(hash64(0x55 ^ ((id as u64) << 8)));
            ex.parent.push(me);
            ex.announced += 1;
            id
        }
        _ => usize::MAX,
    }
}

/// First action on a new worker thread.
pub fn worker_begin(id: usize) {
    if id == usize::MAX {
        return;
    }
    TID.with(|t| t.set(id));
    let mut g = lock();
    if g.is_none() {
        return;
    }
    {
        let ex = g.as_mut().unwrap();
        ex.arrived += 1;
    }
    CV.notify_all();
    loop {
        let ex = g.as_mut().unwrap();
        if ex.current == id {
            ex.st[id] = St::Running;
            ex.push_log(id, OpKind::Begin, 0, 0);
            return;
        }
        g = wait_cv(g);
    }
}

/// Last action of a worker (also while unwinding).
pub fn worker_end(id: usize) {
    if id == usize::MAX {
        return;
    }
    let g = lock();
    if g.is_none() {
        return;
    }
    do_yield(g, id, St::Finished, None);
    TID.with(|t| t.set(NONE));
}

pub fn before_join(id: usize) {
    let me = TID.with(|t| t.get());
    if me == NONE || id == usize::MAX {
        return;
    }
    let g = lock();
    if g.is_none() {
        return;
    }
    do_yield(g, me, St::BlockedJoin(id), Some((OpKind::Join, id as i64, 0)));
}

pub fn leave_scope() {
    let me = TID.with(|t| t.get());
    if me == NONE {
        return;
    }
    let g = lock();
    if g.is_none() {
        return;
    }
    do_yield(g, me, St::BlockedAll, Some((OpKind::Leave, 0, 0)));
}

/// Runs `body` on the calling thread as thread 0 of a controlled execution with the forced choice
/// prefix `prefix` (choices beyond the prefix are 0). Returns the body's value and the record.
pub fn run_one<R>(cfg: &Config, prefix: &[u8], body: impl FnOnce() -> R) -> (R, ExecRecord) {
    {
        let mut g = lock();
        if g.is_some() {
            machinery_error("run_one: an execution is already active");
        }
        *g = Some(Exec {
            cfg: cfg.clone(),
            st: vec![St::Running],
            announced: 0,
            arrived: 0,
            current: 0,
            prefix: prefix.to_vec(),
            decisions: Vec::with_capacity(64),
            progress: 0,
            from_spin: vec![false],
            waited: vec![0],
            flagged: vec![false],
            max_flagged: 0,
            log: Vec::with_capacity(128),
            last_log: vec![usize::MAX],
            thash: vec![hash64(0)],
            thash2: vec![hash64(0x55)],
            parent: vec![usize::MAX],
            skip0: 0,
            diverged: false,
            last_event: Instant::now(),
            fatal: None,
        });
    }
    TID.with(|t| t.set(0));
    let r = body();
    TID.with(|t| t.set(NONE));
    let mut g = lock();
    let ex = g.take().unwrap();
    if ex.st[1..].iter().any(|s| *s != St::Finished) {
        machinery_error("run_one: body returned while workers are still registered as running");
    }
    if ex.decisions.len() < ex.prefix.len() && ex.cfg.strict {
        machinery_error(&format!(
            "replay divergence: execution ended after {} decisions, prefix has {}",
            ex.decisions.len(),
            ex.prefix.len()
        ));
    }
    let rec = ex.record();
    (r, rec)
}

/// Aggregated exploration statistics.
#[derive(Default)]
pub struct Stats {
    pub executions: u64,
    pub steps: u64,
    pub states: HashSet<u64>,
    pub edges: HashSet<u64>,
    pub max_decisions: u32,
    pub max_threads: u32,
    pub final_states: HashSet<u64>,
}

impl Stats {
    pub fn absorb(&mut self, rec: &ExecRecord) {
        self.executions += 1;
        self.steps += rec.decisions.len() as u64;
        for d in &rec.decisions {
            self.states.insert(d.state);
            self.edges.insert(mix(d.state, d.chosen as u64));
        }
        self.states.insert(rec.final_state);
        self.final_states.insert(rec.final_state);
        self.max_decisions = self.max_decisions.max(rec.decisions.len() as u32);
        self.max_threads = self.max_threads.max(rec.n_threads as u32);
    }
}
