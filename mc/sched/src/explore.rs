//! Stateless depth-first exploration of schedules with deviation bounding.
//!
//! `explore(prefix)`: run one execution that replays `prefix` and takes choice 0 afterwards; then, for
//! every decision at or after the end of the prefix and every alternative choice whose cost fits the bound,
//! explore `choices[..i] ++ [alt]`.

use crate::{machinery_error, Config, ExecRecord, Order, Stats};

#[derive(Clone, Debug)]
pub struct Plan {
    pub order: Order,
    /// None = all interleavings (FULL)
    pub bound: Option<u32>,
    pub fair_k: u32,
    pub horizon: u32,
    /// cap on executions (0 = none); hitting it is reported, never silently called exhaustive
    pub max_execs: u64,
    /// the plan consists of the base schedule only (one execution; nothing else is claimed)
    pub single: bool,
    /// slow spawner factor of the delay-bounded base order (see Config::slow0)
    pub slow0: u32,
    /// visited-state pruning: no alternatives are generated beyond a state that was already expanded
    /// with at most the same cost (the first visitor's subtree is explored anyway)
    pub prune: bool,
}

impl Plan {
    pub fn full() -> Self {
        Plan { order: Order::Pb, bound: None, fair_k: 0, horizon: 20_000, max_execs: 0, single: false, slow0: 1, prune: true }
    }
    pub fn pb(b: u32) -> Self {
        Plan { order: Order::Pb, bound: Some(b), fair_k: 0, horizon: 20_000, max_execs: 0, single: false, slow0: 1, prune: true }
    }
    pub fn db(b: u32) -> Self {
        Plan { order: Order::Db, bound: Some(b), fair_k: 0, horizon: 20_000, max_execs: 0, single: false, slow0: 1, prune: true }
    }
    /// the non-preemptive base schedule alone: run the current thread until it blocks, then the lowest id
    pub fn base_np() -> Self {
        Plan { order: Order::Pb, bound: Some(0), fair_k: 0, horizon: 20_000, max_execs: 0, single: true, slow0: 1, prune: false }
    }
    /// the round-robin base schedule alone (identical to DB(0))
    pub fn base_rr() -> Self {
        Plan { order: Order::Db, bound: Some(0), fair_k: 0, horizon: 20_000, max_execs: 0, single: true, slow0: 1, prune: false }
    }
    pub fn with_fair(mut self, k: u32, horizon: u32) -> Self {
        self.fair_k = k;
        self.horizon = horizon;
        self
    }
    pub fn with_horizon(mut self, horizon: u32) -> Self {
        self.horizon = horizon;
        self
    }
    pub fn with_slow0(mut self, k: u32) -> Self {
        self.slow0 = k;
        self
    }
    pub fn without_pruning(mut self) -> Self {
        self.prune = false;
        self
    }
    pub fn with_cap(mut self, n: u64) -> Self {
        self.max_execs = n;
        self
    }
    pub fn config(&self) -> Config {
        Config { order: self.order, fair_k: self.fair_k, horizon: self.horizon, slow0: self.slow0, strict: true }
    }
    pub fn name(&self) -> String {
        let b = match (self.order, self.bound) {
            (Order::Pb, _) if self.single => "BASE-NP".to_string(),
            (Order::Db, _) if self.single => "BASE-RR".to_string(),
            (_, None) => "FULL".to_string(),
            (Order::Pb, Some(b)) => format!("PB({})", b),
            (Order::Db, Some(b)) => format!("DB({})", b),
        };
        let b = if self.slow0 > 1 { format!("{}/S{}", b, self.slow0) } else { b };
        if self.fair_k > 0 {
            format!("{}+K{}+H{}", b, self.fair_k, self.horizon)
        } else {
            b
        }
    }
}

#[derive(Clone, Copy, Debug, PartialEq, Eq)]
pub enum Next {
    Continue,
    Stop,
}

#[derive(Clone, Debug, Default)]
pub struct Outcome {
    pub executions: u64,
    /// the bounded space was enumerated completely
    pub complete: bool,
    pub stopped: bool,
    /// executions whose expansion was cut at an already expanded state
    pub pruned: u64,
}

struct Item {
    prefix: Vec<u8>,
    /// state hash the parent saw at the branching decision
    expect: Option<(usize, u64)>,
}

fn cost_of(order: Order, choice: u8, cur_enabled: bool) -> u32 {
    match order {
        Order::Pb => {
            if choice != 0 && cur_enabled {
                1
            } else {
                0
            }
        }
        Order::Db => choice as u32,
    }
}

/// `run` executes one controlled execution with the given forced prefix and returns its record.
pub fn explore(
    plan: &Plan,
    stats: &mut Stats,
    mut run: impl FnMut(&[u8]) -> (ExecRecord, Next),
) -> Outcome {
    let mut out = Outcome::default();
    let mut stack: Vec<Item> = vec![Item { prefix: vec![], expect: None }];
    let mut expanded: std::collections::HashMap<u128, u32> = std::collections::HashMap::new();
    while let Some(item) = stack.pop() {
        if plan.max_execs > 0 && out.executions >= plan.max_execs {
            return out; // complete = false
        }
        let (rec, next) = run(&item.prefix);
        out.executions += 1;
        if let Some((i, st)) = item.expect {
            if rec.decisions.len() <= i || rec.decisions[i].state != st {
                machinery_error(&format!(
                    "nondeterminism: replaying prefix {:?} reached a different state at decision {}",
                    item.prefix, i
                ));
            }
        }
        stats.absorb(&rec);
        if next == Next::Stop {
            out.stopped = true;
            return out;
        }
        if plan.single {
            break;
        }
        // cost of the choices up to each decision
        let mut cost = 0u32;
        let mut costs = Vec::with_capacity(rec.decisions.len());
        for d in &rec.decisions {
            costs.push(cost);
            cost += cost_of(plan.order, d.choice, d.cur_enabled);
        }
        // visited-state pruning: stop expanding at the first state (past the replayed prefix) that was already
        // expanded with at most the same cost
        let mut limit = rec.decisions.len();
        if plan.prune {
            for i in item.prefix.len()..rec.decisions.len() {
                let k = rec.decisions[i].key;
                match expanded.get(&k) {
                    Some(c0) if *c0 <= costs[i] => {
                        limit = i;
                        out.pruned += 1;
                        break;
                    }
                    _ => {
                        expanded.insert(k, costs[i]);
                    }
                }
            }
        }
        // push deeper alternatives first so that they are popped last (DFS explores shallow deviations first)
        for i in (item.prefix.len()..limit).rev() {
            let d = &rec.decisions[i];
            for alt in (1..d.n_enabled).rev() {
                let c = costs[i] + cost_of(plan.order, alt, d.cur_enabled);
                if let Some(b) = plan.bound {
                    if c > b {
                        continue;
                    }
                }
                let mut p: Vec<u8> = Vec::with_capacity(i + 1);
                p.extend(rec.decisions[..i].iter().map(|d| d.choice));
                p.push(alt);
                stack.push(Item { prefix: p, expect: Some((i, d.state)) });
            }
        }
    }
    out.complete = true;
    out
}
