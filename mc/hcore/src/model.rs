//! Reference model: the chain interpreted sequentially, element by element, exactly as the lazy std
//! iterator adaptors evaluate it (depth first; a consumer may stop early). It shares the *pure semantic
//! functions* (`label`, `keep`, `n_children`) with the real closures and nothing else. `selftest`
//! validates it against real `std::iter` adaptor chains.

use crate::closures::{child_slot, keep, label, n_children, Call};

#[derive(Clone, Copy, Debug, PartialEq, Eq, Hash, PartialOrd, Ord)]
pub enum Kind {
    M,
    F,
    X,
    O,
    R,
}

impl Kind {
    pub fn ch(self) -> char {
        match self {
            Kind::M => 'M',
            Kind::F => 'F',
            Kind::X => 'X',
            Kind::O => 'O',
            Kind::R => 'R',
        }
    }
    pub fn from_ch(c: char) -> Option<Kind> {
        Some(match c {
            'M' => Kind::M,
            'F' => Kind::F,
            'X' => Kind::X,
            'O' => Kind::O,
            'R' => Kind::R,
            _ => return None,
        })
    }
}

pub fn chain_from_str(s: &str) -> Vec<Kind> {
    s.chars().filter_map(Kind::from_ch).collect()
}

pub fn chain_to_str(c: &[Kind]) -> String {
    if c.is_empty() {
        "-".to_string()
    } else {
        c.iter().map(|k| k.ch()).collect()
    }
}

#[derive(Clone, Copy, Debug, PartialEq, Eq, PartialOrd, Ord, Hash)]
pub struct Elem {
    pub id: u64,
    pub slot: u8,
    /// position of the source element this one descends from
    pub src_pos: usize,
}

thread_local! {
    /// children of flat_map stages visited by the evaluations of this thread since the last `take_exp()`
    static EXP_VISITED: std::cell::Cell<u64> = const { std::cell::Cell::new(0) };
}

/// number of flat_map children the reference evaluations visited (a lazy expansion is asked for exactly these)
pub fn take_exp() -> u64 {
    EXP_VISITED.with(|c| c.replace(0))
}

/// Pushes `e` through stages `chain[s..]`; `sink` returns false to stop the whole evaluation.
fn push(chain: &[Kind], s: usize, e: Elem, calls: &mut Vec<Call>, sink: &mut dyn FnMut(Elem, &mut Vec<Call>) -> bool) -> bool {
    if s == chain.len() {
        return sink(e, calls);
    }
    let st = s as u8;
    calls.push(Call { stage: st, id: e.id, thread: 0 });
    match chain[s] {
        Kind::M => push(chain, s + 1, Elem { id: label(st, e.id, 0), ..e }, calls, sink),
        Kind::F => {
            if keep(st, e.slot) {
                push(chain, s + 1, e, calls, sink)
            } else {
                true
            }
        }
        Kind::O | Kind::R => {
            if keep(st, e.slot) {
                push(chain, s + 1, Elem { id: label(st, e.id, 0), ..e }, calls, sink)
            } else {
                true
            }
        }
        Kind::X => {
            let n = n_children(st, e.slot);
            for k in 0..n {
                EXP_VISITED.with(|c| c.set(c.get() + 1));
                let c = Elem { id: label(st, e.id, k), slot: child_slot(e.slot, k), src_pos: e.src_pos };
                if !push(chain, s + 1, c, calls, sink) {
                    return false;
                }
            }
            true
        }
    }
}

#[derive(Clone, Debug, Default)]
pub struct Full {
    /// every closure call of the sequential evaluation, in order
    pub calls: Vec<Call>,
    pub out: Vec<Elem>,
}

/// Full sequential evaluation (all elements visited).
pub fn full(chain: &[Kind], input: &[(u64, u8)]) -> Full {
    let mut r = Full::default();
    let mut out = Vec::new();
    for (pos, (id, slot)) in input.iter().enumerate() {
        let e = Elem { id: *id, slot: *slot, src_pos: pos };
        push(chain, 0, e, &mut r.calls, &mut |e, _| {
            out.push(e);
            true
        });
    }
    r.out = out;
    r
}

/// Lazy sequential `find(pred)`: evaluation stops at the first output accepted by `accept`
/// (`accept` may log its own call).
pub fn find(chain: &[Kind], input: &[(u64, u8)], accept: &mut dyn FnMut(Elem, &mut Vec<Call>) -> bool) -> (Vec<Call>, Option<(usize, Elem)>) {
    let mut calls = Vec::new();
    let mut found = None;
    let mut idx = 0usize;
    for (pos, (id, slot)) in input.iter().enumerate() {
        let e = Elem { id: *id, slot: *slot, src_pos: pos };
        let go = push(chain, 0, e, &mut calls, &mut |e, calls| {
            if accept(e, calls) {
                found = Some((idx, e));
                false
            } else {
                idx += 1;
                true
            }
        });
        if !go {
            break;
        }
    }
    (calls, found)
}
