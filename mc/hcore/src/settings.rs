//! Runtime-controlled `num_threads` / `chunk_size` setters at every position of a chain, plus the probes
//! taken at every position (params as reported, closure calls so far, source consumption so far, threads spawned).

use orx_parallel::{ChunkSize, NumThreads, Par, Params};
use std::cell::RefCell;
use std::num::NonZeroUsize;

#[derive(Clone, Copy, Debug, PartialEq, Eq, Hash)]
pub enum NtSet {
    /// setter not called
    Keep,
    /// `num_threads(usize)` (0 -> Auto, n -> Max(n))
    N(usize),
    Auto,
    Max(usize),
}

#[derive(Clone, Copy, Debug, PartialEq, Eq, Hash)]
pub enum CsSet {
    Keep,
    /// `chunk_size(usize)` (0 -> Auto, n -> Exact(n))
    N(usize),
    Auto,
    Min(usize),
    Exact(usize),
}

impl NtSet {
    pub fn expected(self) -> Option<NumThreads> {
        match self {
            NtSet::Keep => None,
            NtSet::N(0) | NtSet::Auto => Some(NumThreads::Auto),
            NtSet::N(n) | NtSet::Max(n) => Some(NumThreads::Max(NonZeroUsize::new(n).unwrap())),
        }
    }
    pub fn to_str(self) -> String {
        match self {
            NtSet::Keep => "-".into(),
            NtSet::N(n) => format!("{}", n),
            NtSet::Auto => "A".into(),
            NtSet::Max(n) => format!("X{}", n),
        }
    }
    pub fn parse(s: &str) -> NtSet {
        match s {
            "-" => NtSet::Keep,
            "A" => NtSet::Auto,
            _ if s.starts_with('X') => NtSet::Max(s[1..].parse().unwrap()),
            _ => NtSet::N(s.parse().unwrap()),
        }
    }
}

impl CsSet {
    pub fn expected(self) -> Option<ChunkSize> {
        match self {
            CsSet::Keep => None,
            CsSet::N(0) | CsSet::Auto => Some(ChunkSize::Auto),
            CsSet::N(n) | CsSet::Exact(n) => Some(ChunkSize::Exact(NonZeroUsize::new(n).unwrap())),
            CsSet::Min(n) => Some(ChunkSize::Min(NonZeroUsize::new(n).unwrap())),
        }
    }
    pub fn to_str(self) -> String {
        match self {
            CsSet::Keep => "-".into(),
            CsSet::N(n) => format!("{}", n),
            CsSet::Auto => "A".into(),
            CsSet::Min(n) => format!("m{}", n),
            CsSet::Exact(n) => format!("e{}", n),
        }
    }
    pub fn parse(s: &str) -> CsSet {
        match s {
            "-" => CsSet::Keep,
            "A" => CsSet::Auto,
            _ if s.starts_with('m') => CsSet::Min(s[1..].parse().unwrap()),
            _ if s.starts_with('e') => CsSet::Exact(s[1..].parse().unwrap()),
            _ => CsSet::N(s.parse().unwrap()),
        }
    }
}

#[derive(Clone, Debug, PartialEq, Eq)]
pub struct Probe {
    pub pos: usize,
    pub params_before: Params,
    pub params_after: Params,
    pub calls: u32,
    pub src_consumed: u32,
    pub spawned: u32,
    pub toks_created: u32,
    /// the same four counters after the setters of this position ran
    pub after: (u32, u32, u32, u32),
}

#[derive(Debug)]
pub struct Settings {
    pub nt: [NtSet; 4],
    pub cs: [CsSet; 4],
    /// chunk_size before num_threads (order of the two setter calls at one position)
    pub cs_first: bool,
    pub probes: RefCell<Vec<Probe>>,
}

impl Settings {
    pub fn new(nt: [NtSet; 4], cs: [CsSet; 4]) -> Self {
        Settings { nt, cs, cs_first: false, probes: RefCell::new(Vec::new()) }
    }

    fn set_nt<P: Par>(&self, pos: usize, p: P) -> P {
        match self.nt[pos] {
            NtSet::Keep => p,
            NtSet::N(n) => p.num_threads(n),
            NtSet::Auto => p.num_threads(NumThreads::Auto),
            NtSet::Max(n) => p.num_threads(NumThreads::Max(NonZeroUsize::new(n).unwrap())),
        }
    }

    fn set_cs<P: Par>(&self, pos: usize, p: P) -> P {
        match self.cs[pos] {
            CsSet::Keep => p,
            CsSet::N(n) => p.chunk_size(n),
            CsSet::Auto => p.chunk_size(ChunkSize::Auto),
            CsSet::Min(n) => p.chunk_size(ChunkSize::Min(NonZeroUsize::new(n).unwrap())),
            CsSet::Exact(n) => p.chunk_size(ChunkSize::Exact(NonZeroUsize::new(n).unwrap())),
        }
    }

    /// Called after construction (pos 0) and after every transformation (pos 1..=3).
    pub fn step<P: Par>(&self, pos: usize, p: P) -> P {
        let params_before = p.params();
        let calls = crate::closures::N_CALLS.load(std::sync::atomic::Ordering::SeqCst);
        let src_consumed = crate::source::SRC_NEXTS.load(std::sync::atomic::Ordering::SeqCst);
        let spawned = crate::glue::take_spawn_count();
        let toks_created = crate::tok::created();
        let p = if self.cs_first {
            let p = self.set_cs(pos, p);
            self.set_nt(pos, p)
        } else {
            let p = self.set_nt(pos, p);
            self.set_cs(pos, p)
        };
        let params_after = p.params();
        let after = (
            crate::closures::N_CALLS.load(std::sync::atomic::Ordering::SeqCst),
            crate::source::SRC_NEXTS.load(std::sync::atomic::Ordering::SeqCst),
            crate::glue::take_spawn_count(),
            crate::tok::created(),
        );
        self.probes.borrow_mut().push(Probe { pos, params_before, params_after, calls, src_consumed, spawned, toks_created, after });
        p
    }

    /// the parameters the trivial model predicts after position `pos` (last value set, else Auto)
    pub fn expected_params(&self, pos: usize) -> Params {
        let mut nt = NumThreads::Auto;
        let mut cs = ChunkSize::Auto;
        for i in 0..=pos {
            if let Some(x) = self.nt[i].expected() {
                nt = x;
            }
            if let Some(x) = self.cs[i].expected() {
                cs = x;
            }
        }
        Params { num_threads: nt, chunk_size: cs }
    }
}
