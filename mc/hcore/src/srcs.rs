//! Source constructors: each builds one source kind for a case and hands the resulting `ParEmpty<..>`
//! (a fixed type per source kind) to a continuation.

use crate::case::{elems_of, Case, Eff};
use crate::schediter::SchedIter;
use crate::source::{make_toks, LogIter};
use crate::tok::{Big, Cp, Item, Tok, GEN_SHIFT};
use crate::visit::TermResult;
use orx_concurrent_iter::{ConIterOfIter, ConIterOfRange, ConIterOfSlice, ConIterOfVec, IntoConcurrentIter, IterIntoConcurrentIter};
use orx_parallel::verif::{par_from_con_iter, ParEmpty};
use orx_parallel::{AsPar, IntoPar, IterIntoPar, Par, ParIntoCloned, ParIntoCopied};
use orx_concurrent_iter::{ConcurrentIterX, ConcurrentIterable, IntoCloned};
use std::collections::{BTreeMap, HashMap};
use std::collections::{BTreeSet, BinaryHeap, HashSet, LinkedList, VecDeque};

pub type R = TermResult;

pub fn svec(case: &Case, eff: &mut Eff, f: impl FnOnce(ParEmpty<SchedIter<ConIterOfVec<Tok>>>) -> R) -> R {
    *eff = elems_of(&case.input);
    let v = make_toks(&case.input);
    f(par_from_con_iter(SchedIter::new(v.into_con_iter())))
}

pub fn sbigvec(case: &Case, eff: &mut Eff, f: impl FnOnce(ParEmpty<SchedIter<ConIterOfVec<Big>>>) -> R) -> R {
    *eff = elems_of(&case.input);
    let v: Vec<Big> = make_toks(&case.input).into_iter().map(Big::new).collect();
    f(par_from_con_iter(SchedIter::new(v.into_con_iter())))
}

pub type BigIter = std::iter::Map<LogIter, fn(Tok) -> Big>;

pub fn sbigiter(case: &Case, eff: &mut Eff, f: impl FnOnce(ParEmpty<SchedIter<ConIterOfIter<Big, BigIter>>>) -> R) -> R {
    *eff = elems_of_iter(case);
    let it: BigIter = LogIter::new(&case.input, case.known, case.endless).map(Big::new as fn(Tok) -> Big);
    f(par_from_con_iter(SchedIter::new(IterIntoConcurrentIter::into_con_iter(it))))
}

pub fn sslice(case: &Case, eff: &mut Eff, f: impl for<'a> FnOnce(ParEmpty<SchedIter<ConIterOfSlice<'a, Tok>>>) -> R) -> R {
    *eff = elems_of(&case.input);
    let v = make_toks(&case.input);
    let r = f(par_from_con_iter(SchedIter::new(v.as_slice().into_con_iter())));
    drop(v);
    r
}

/// endless sources: the reference sees the first 64 positions (every mask slot occurs among them)
fn elems_of_iter(case: &Case) -> Eff {
    if case.endless {
        (0..64).map(|p| crate::source::src_elem(&case.input, p)).collect()
    } else {
        elems_of(&case.input)
    }
}

pub fn siter(case: &Case, eff: &mut Eff, f: impl FnOnce(ParEmpty<SchedIter<ConIterOfIter<Tok, LogIter>>>) -> R) -> R {
    *eff = elems_of_iter(case);
    let it = LogIter::new(&case.input, case.known, case.endless);
    f(par_from_con_iter(SchedIter::new(IterIntoConcurrentIter::into_con_iter(it))))
}

pub fn srange(case: &Case, eff: &mut Eff, f: impl FnOnce(ParEmpty<SchedIter<ConIterOfRange<usize>>>) -> R) -> R {
    // millions of elements: no reference input (such cases are judged on the pull log only)
    *eff = if case.input.len() > 1_000_000 { Vec::new() } else { elems_of(&case.input) };
    let r = 1usize..case.input.len() + 1;
    f(par_from_con_iter(SchedIter::new(IntoConcurrentIter::into_con_iter(r))))
}

pub fn pvec(case: &Case, eff: &mut Eff, f: impl FnOnce(ParEmpty<<Vec<Tok> as IntoPar>::ConIter>) -> R) -> R {
    *eff = elems_of(&case.input);
    f(make_toks(&case.input).into_par())
}

pub fn pvecref(case: &Case, eff: &mut Eff, f: impl for<'a> FnOnce(ParEmpty<<Vec<Tok> as AsPar<'a, Tok>>::ConIter>) -> R) -> R {
    *eff = elems_of(&case.input);
    let v = make_toks(&case.input);
    let r = f(v.par());
    drop(v);
    r
}

pub fn pslice(case: &Case, eff: &mut Eff, f: impl for<'a> FnOnce(ParEmpty<<&'a [Tok] as IntoPar>::ConIter>) -> R) -> R {
    *eff = elems_of(&case.input);
    let v = make_toks(&case.input);
    let r = f(v.as_slice().into_par());
    drop(v);
    r
}

pub fn psliceaspar(case: &Case, eff: &mut Eff, f: impl for<'a> FnOnce(ParEmpty<<&'a [Tok] as AsPar<'a, Tok>>::ConIter>) -> R) -> R {
    *eff = elems_of(&case.input);
    let v = make_toks(&case.input);
    let r = {
        let s: &[Tok] = v.as_slice();
        f(s.par())
    };
    drop(v);
    r
}

pub fn parr3(case: &Case, eff: &mut Eff, f: impl for<'a> FnOnce(ParEmpty<<[Tok; 3] as AsPar<'a, Tok>>::ConIter>) -> R) -> R {
    let inp3: Vec<u8> = case.input.iter().copied().chain(0..3).take(3).collect();
    *eff = elems_of(&inp3);
    let mut it = make_toks(&inp3).into_iter();
    let a: [Tok; 3] = [it.next().unwrap(), it.next().unwrap(), it.next().unwrap()];
    let r = f(a.par());
    drop(a);
    r
}

pub fn prange(case: &Case, eff: &mut Eff, f: impl FnOnce(ParEmpty<<std::ops::Range<usize> as IntoPar>::ConIter>) -> R) -> R {
    *eff = elems_of(&case.input);
    f((1usize..case.input.len() + 1).into_par())
}

/// `1..usize::MAX`: a range used as an unbounded source (its end is the largest usize)
pub fn prangemax(case: &Case, eff: &mut Eff, f: impl FnOnce(ParEmpty<<std::ops::Range<usize> as IntoPar>::ConIter>) -> R) -> R {
    *eff = (0..64).map(|p| crate::source::src_elem(&case.input, p)).collect();
    f((1usize..usize::MAX).into_par())
}

/// `1..2^e + 10` with e = `case.spare`: more elements than an i32 (e = 31) or a u32 (e = 32) can count; only for
/// closure-free terminals (the reference is the length itself)
pub fn prangebig(case: &Case, eff: &mut Eff, f: impl FnOnce(ParEmpty<<std::ops::Range<usize> as IntoPar>::ConIter>) -> R) -> R {
    *eff = Vec::new();
    f((1usize..(1usize << case.spare) + 10).into_par())
}

pub fn piter(case: &Case, eff: &mut Eff, f: impl FnOnce(ParEmpty<<LogIter as IterIntoPar<LogIter>>::ConIter>) -> R) -> R {
    *eff = elems_of_iter(case);
    f(LogIter::new(&case.input, case.known, case.endless).par())
}

/// a deque with the given content; `wrapped`: the ring buffer is not contiguous (`as_slices().1` is not empty)
fn make_deque(input: &[u8], wrapped: bool) -> VecDeque<Tok> {
    let toks = make_toks(input);
    if !wrapped {
        return toks.into_iter().collect();
    }
    let mut d: VecDeque<Tok> = VecDeque::with_capacity(input.len() + 2);
    let h = toks.len() / 2;
    let mut front = Vec::new();
    for (i, t) in toks.into_iter().enumerate() {
        if i < h {
            front.push(t)
        } else {
            d.push_back(t)
        }
    }
    for t in front.into_iter().rev() {
        d.push_front(t)
    }
    d
}

pub fn pdeque(case: &Case, eff: &mut Eff, f: impl FnOnce(ParEmpty<<VecDeque<Tok> as IntoPar>::ConIter>) -> R) -> R {
    *eff = elems_of(&case.input);
    // both layouts of the ring buffer: wrapped for inputs of even length, contiguous otherwise
    let d = make_deque(&case.input, case.input.len() % 2 == 0);
    f(d.into_par())
}

pub fn pdequeref(case: &Case, eff: &mut Eff, f: impl for<'a> FnOnce(ParEmpty<<VecDeque<Tok> as AsPar<'a, Tok>>::ConIter>) -> R) -> R {
    *eff = elems_of(&case.input);
    // both layouts of the ring buffer: contiguous for inputs of 3, 6, .. elements, wrapped otherwise
    let d = make_deque(&case.input, case.input.len() % 3 != 0);
    let r = f(d.par());
    drop(d);
    r
}

pub fn plist(case: &Case, eff: &mut Eff, f: impl FnOnce(ParEmpty<<LinkedList<Tok> as IntoPar>::ConIter>) -> R) -> R {
    *eff = elems_of(&case.input);
    let d: LinkedList<Tok> = make_toks(&case.input).into_iter().collect();
    f(d.into_par())
}

pub fn plistref(case: &Case, eff: &mut Eff, f: impl for<'a> FnOnce(ParEmpty<<LinkedList<Tok> as AsPar<'a, Tok>>::ConIter>) -> R) -> R {
    *eff = elems_of(&case.input);
    let d: LinkedList<Tok> = make_toks(&case.input).into_iter().collect();
    let r = f(d.par());
    drop(d);
    r
}

pub fn pbtree(case: &Case, eff: &mut Eff, f: impl FnOnce(ParEmpty<<BTreeSet<Tok> as IntoPar>::ConIter>) -> R) -> R {
    let d: BTreeSet<Tok> = make_toks(&case.input).into_iter().collect();
    *eff = d.iter().map(|t| (t.id, t.slot)).collect();
    f(d.into_par())
}

pub fn pbtreeref(case: &Case, eff: &mut Eff, f: impl for<'a> FnOnce(ParEmpty<<BTreeSet<Tok> as AsPar<'a, Tok>>::ConIter>) -> R) -> R {
    let d: BTreeSet<Tok> = make_toks(&case.input).into_iter().collect();
    *eff = d.iter().map(|t| (t.id, t.slot)).collect();
    let r = f(d.par());
    drop(d);
    r
}

pub fn pheap(case: &Case, eff: &mut Eff, f: impl FnOnce(ParEmpty<<BinaryHeap<Tok> as IntoPar>::ConIter>) -> R) -> R {
    let d: BinaryHeap<Tok> = make_toks(&case.input).into_iter().collect();
    *eff = d.iter().map(|t| (t.id, t.slot)).collect();
    f(d.into_par())
}

pub fn pheapref(case: &Case, eff: &mut Eff, f: impl for<'a> FnOnce(ParEmpty<<BinaryHeap<Tok> as AsPar<'a, Tok>>::ConIter>) -> R) -> R {
    let d: BinaryHeap<Tok> = make_toks(&case.input).into_iter().collect();
    *eff = d.iter().map(|t| (t.id, t.slot)).collect();
    let r = f(d.par());
    drop(d);
    r
}

pub fn phash(case: &Case, eff: &mut Eff, f: impl FnOnce(ParEmpty<<HashSet<Tok> as IntoPar>::ConIter>) -> R) -> R {
    let d: HashSet<Tok> = make_toks(&case.input).into_iter().collect();
    *eff = d.iter().map(|t| (t.id, t.slot)).collect();
    f(d.into_par())
}

pub fn phashref(case: &Case, eff: &mut Eff, f: impl for<'a> FnOnce(ParEmpty<<HashSet<Tok> as AsPar<'a, Tok>>::ConIter>) -> R) -> R {
    let d: HashSet<Tok> = make_toks(&case.input).into_iter().collect();
    *eff = d.iter().map(|t| (t.id, t.slot)).collect();
    let r = f(d.par());
    drop(d);
    r
}

// ---- adaptors that return an opaque `impl Par`: the continuation is a generic visitor ----

pub trait ParK {
    fn call<P: Par>(self, p: P) -> R
    where
        P::Item: Item;
}

fn make_cps(input: &[u8]) -> Vec<Cp> {
    (0..input.len())
        .map(|p| {
            let (id, slot) = crate::source::src_elem(input, p);
            Cp::new(id, slot)
        })
        .collect()
}

/// elements as the pipeline sees them after exactly one `Clone::clone`
fn cloned_elems(input: &[u8]) -> Eff {
    elems_of(input).into_iter().map(|(id, slot)| (id + (1u64 << GEN_SHIFT), slot)).collect()
}

pub fn pclonedad(case: &Case, eff: &mut Eff, k: impl ParK) -> R {
    *eff = cloned_elems(&case.input);
    let v = make_cps(&case.input);
    let r = k.call(v.par().cloned());
    drop(v);
    r
}

pub fn pcopiedad(case: &Case, eff: &mut Eff, k: impl ParK) -> R {
    *eff = elems_of(&case.input);
    let v: Vec<usize> = (1..case.input.len() + 1).collect();
    let r = k.call(v.par().copied());
    drop(v);
    r
}

/// `par().filter(keep everything, logged as stage 3).copied()` / `.cloned()`: the adaptors after another transformation
pub fn pfltcopied(case: &Case, eff: &mut Eff, k: impl ParK) -> R {
    *eff = elems_of(&case.input);
    let v: Vec<usize> = (1..case.input.len() + 1).collect();
    let r = k.call(v.par().filter(|x: &&usize| crate::closures::pre_stage(**x as u64)).copied());
    drop(v);
    r
}

pub fn pfltcloned(case: &Case, eff: &mut Eff, k: impl ParK) -> R {
    *eff = cloned_elems(&case.input);
    let v = make_cps(&case.input);
    let r = k.call(v.par().filter(|x: &&Cp| crate::closures::pre_stage(x.id())).cloned());
    drop(v);
    r
}

pub fn pclonedit(case: &Case, eff: &mut Eff, k: impl ParK) -> R {
    *eff = cloned_elems(&case.input);
    let v = make_cps(&case.input);
    let r = k.call(v.con_iter().cloned().into_par());
    drop(v);
    r
}

// ---- concurrent iterators handed to into_par() / par() directly ----

pub fn pconvec(case: &Case, eff: &mut Eff, f: impl FnOnce(ParEmpty<ConIterOfVec<Tok>>) -> R) -> R {
    *eff = elems_of(&case.input);
    f(make_toks(&case.input).into_con_iter().into_par())
}

pub fn pconslice(case: &Case, eff: &mut Eff, f: impl for<'a> FnOnce(ParEmpty<ConIterOfSlice<'a, Tok>>) -> R) -> R {
    *eff = elems_of(&case.input);
    let v = make_toks(&case.input);
    let r = f(v.as_slice().into_con_iter().into_par());
    drop(v);
    r
}

pub fn pconrange(case: &Case, eff: &mut Eff, f: impl FnOnce(ParEmpty<ConIterOfRange<usize>>) -> R) -> R {
    *eff = elems_of(&case.input);
    f(IntoConcurrentIter::into_con_iter(1usize..case.input.len() + 1).into_par())
}

/// number of elements taken from a concurrent iterator before it is turned into a computation
fn pre_taken(n: usize) -> usize {
    // short inputs: 1-2 elements; long inputs: a third (positions of the last third exceed the remaining length)
    if n >= 20 {
        n / 3
    } else {
        (1 + n % 2).min(n)
    }
}

pub fn pconvecpre(case: &Case, eff: &mut Eff, f: impl FnOnce(ParEmpty<ConIterOfVec<Tok>>) -> R) -> R {
    let k = pre_taken(case.input.len());
    *eff = elems_of(&case.input)[k..].to_vec();
    let ci = make_toks(&case.input).into_con_iter();
    for _ in 0..k {
        drop(ci.next());
    }
    f(ci.into_par())
}

pub fn pconslicepre(case: &Case, eff: &mut Eff, f: impl for<'a> FnOnce(ParEmpty<ConIterOfSlice<'a, Tok>>) -> R) -> R {
    let k = pre_taken(case.input.len());
    *eff = elems_of(&case.input)[k..].to_vec();
    let v = make_toks(&case.input);
    let ci = v.as_slice().into_con_iter();
    for _ in 0..k {
        _ = ci.next();
    }
    let r = f(ci.into_par());
    drop(v);
    r
}

pub fn pconrangepre(case: &Case, eff: &mut Eff, f: impl FnOnce(ParEmpty<ConIterOfRange<usize>>) -> R) -> R {
    let k = pre_taken(case.input.len());
    *eff = elems_of(&case.input)[k..].to_vec();
    let ci = IntoConcurrentIter::into_con_iter(1usize..case.input.len() + 1);
    for _ in 0..k {
        _ = ci.next();
    }
    f(ci.into_par())
}

/// a by-value iterator of which the first elements were taken through its concurrent iterator; the counters
/// of the source log start afresh (what was taken beforehand is not consumption by the computation)
fn pre_taken_con_iter(case: &Case, eff: &mut Eff) -> ConIterOfIter<Tok, LogIter> {
    let k = pre_taken(case.input.len());
    *eff = elems_of(&case.input)[k..].to_vec();
    let ci = IterIntoConcurrentIter::into_con_iter(LogIter::new(&case.input, case.known, false));
    for _ in 0..k {
        drop(ci.next());
    }
    crate::source::SRC_NEXTS.store(0, std::sync::atomic::Ordering::SeqCst);
    crate::source::take_src_log();
    ci
}

pub fn pconiterpre(case: &Case, eff: &mut Eff, f: impl FnOnce(ParEmpty<ConIterOfIter<Tok, LogIter>>) -> R) -> R {
    let ci = pre_taken_con_iter(case, eff);
    f(IntoPar::into_par(ci))
}

pub fn pconiterparpre(case: &Case, eff: &mut Eff, f: impl FnOnce(ParEmpty<ConIterOfIter<Tok, LogIter>>) -> R) -> R {
    let ci = pre_taken_con_iter(case, eff);
    f(IterIntoPar::par(ci))
}

pub fn pconiter(case: &Case, eff: &mut Eff, f: impl FnOnce(ParEmpty<ConIterOfIter<Tok, LogIter>>) -> R) -> R {
    *eff = elems_of_iter(case);
    let it = LogIter::new(&case.input, case.known, case.endless);
    f(IntoPar::into_par(IterIntoConcurrentIter::into_con_iter(it)))
}

pub fn pconiterpar(case: &Case, eff: &mut Eff, f: impl FnOnce(ParEmpty<ConIterOfIter<Tok, LogIter>>) -> R) -> R {
    *eff = elems_of_iter(case);
    let it = LogIter::new(&case.input, case.known, case.endless);
    f(IterIntoPar::par(IterIntoConcurrentIter::into_con_iter(it)))
}

// ---- map collections ----

pub fn pbtreemap(case: &Case, eff: &mut Eff, f: impl FnOnce(ParEmpty<<BTreeMap<u8, Tok> as IntoPar>::ConIter>) -> R) -> R {
    let d: BTreeMap<u8, Tok> = make_toks(&case.input).into_iter().enumerate().map(|(i, t)| (i as u8, t)).collect();
    *eff = d.iter().map(|(_, t)| (t.id, t.slot)).collect();
    f(d.into_par())
}

pub fn pbtreemapref(case: &Case, eff: &mut Eff, f: impl for<'a> FnOnce(ParEmpty<<BTreeMap<u8, Tok> as AsPar<'a, (u8, Tok)>>::ConIter>) -> R) -> R {
    let d: BTreeMap<u8, Tok> = make_toks(&case.input).into_iter().enumerate().map(|(i, t)| (i as u8, t)).collect();
    *eff = d.iter().map(|(_, t)| (t.id, t.slot)).collect();
    let r = f(d.par());
    drop(d);
    r
}

pub fn phashmap(case: &Case, eff: &mut Eff, f: impl FnOnce(ParEmpty<<HashMap<u8, Tok> as IntoPar>::ConIter>) -> R) -> R {
    let d: HashMap<u8, Tok> = make_toks(&case.input).into_iter().enumerate().map(|(i, t)| (i as u8, t)).collect();
    *eff = d.iter().map(|(_, t)| (t.id, t.slot)).collect();
    f(d.into_par())
}

pub fn phashmapref(case: &Case, eff: &mut Eff, f: impl for<'a> FnOnce(ParEmpty<<HashMap<u8, Tok> as AsPar<'a, (u8, Tok)>>::ConIter>) -> R) -> R {
    let d: HashMap<u8, Tok> = make_toks(&case.input).into_iter().enumerate().map(|(i, t)| (i as u8, t)).collect();
    *eff = d.iter().map(|(_, t)| (t.id, t.slot)).collect();
    let r = f(d.par());
    drop(d);
    r
}
