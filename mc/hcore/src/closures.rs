//! Runtime-parameterised closure families + call log.
//!
//! The library never inspects items (it is parametric in the item type), so on an input of distinct
//! tokens every pure closure behaves like one member of these families:
//!   filter(stage)     keeps a token iff bit `slot` of FMASK[stage] is set
//!   filter_map(stage) the same mask, relabelling survivors
//!   flat_map(stage)   produces 0..=3 relabelled children, count = 2 bits at `2*slot` of EXPAND[stage]
//!   map(stage)        injective relabel
//! A token's `slot` is inherited from the source value it descends from (children: 3*slot+k mod 64), its
//! `id` encodes the whole derivation, so a call log entry `(stage, id)` identifies (stage, argument).

use crate::tok::{Item, Tok};
use sched::OpKind;
use std::sync::atomic::{AtomicBool, AtomicU32, AtomicU64, Ordering::SeqCst};
use std::sync::Mutex;

pub const ST_PRED: u8 = 4;
pub const ST_RED: u8 = 5;
pub const ST_FOREACH: u8 = 6;
pub const ST_KEY: u8 = 7;
pub const N_STAGES: usize = 8;

#[allow(clippy::declare_interior_mutable_const)]
const Z: AtomicU64 = AtomicU64::new(0);
pub static FMASK: [AtomicU64; N_STAGES] = [Z; N_STAGES];
pub static EXPAND: [AtomicU64; N_STAGES] = [Z; N_STAGES];
/// u64::MAX = no fault; else (stage << 56) | (id & 0x00FF_FFFF_FFFF_FFFF)
pub static PANIC_AT: AtomicU64 = AtomicU64::new(u64::MAX);
pub static CLOSURE_POINTS: AtomicBool = AtomicBool::new(false);
pub static N_CALLS: AtomicU32 = AtomicU32::new(0);
/// at most this many closure entries per thread are scheduling points (0 = all of them)
pub static CLOSURE_POINTS_LIMIT: AtomicU32 = AtomicU32::new(0);
/// closures neither log nor note their calls (inputs of millions of elements)
pub static QUIET: AtomicBool = AtomicBool::new(false);
/// payload of the injected panic: 0 = formatted String, 1 = &'static str, 2 = a custom type (panic_any)
pub static FAULT_PAYLOAD: AtomicU32 = AtomicU32::new(0);
/// predicate by identity instead of by slot mask: the predicate accepts exactly these ids (u64::MAX = unused)
pub static PRED_IDS: [AtomicU64; 2] = [AtomicU64::new(u64::MAX), AtomicU64::new(u64::MAX)];
/// how flat_map expansions are produced: 0 = a container built inside the closure (all children exist when it
/// returns), 1 = a lazy iterator (a child comes into existence when `next()` asks for it), 2 = a lazy iterator that
/// never ends (its children cycle through all 64 slots, so every expansion contains elements of every slot),
/// 3 = lazy; elements whose slot is a multiple of 4 expand to LONG_EXPANSION children (exact size hint),
/// 4 = lazy; those elements expand to INEXACT_EXPANSION children and the size hint announces only 3/4 of them
pub static EXP_MODE: AtomicU32 = AtomicU32::new(0);
/// children handed out by expansions (all modes)
pub static EXP_PRODUCED: AtomicU64 = AtomicU64::new(0);
/// an expansion was advanced more than RUNAWAY_LIMIT times (it then ends, so that the execution terminates)
pub static EXP_RUNAWAY: AtomicBool = AtomicBool::new(false);
pub const RUNAWAY_LIMIT: u32 = 5_000;
pub const LONG_EXPANSION: u32 = 70_000;
pub const INEXACT_EXPANSION: u32 = 2_000;
/// number of children of an endless expansion the reference model looks at (every slot occurs among them)
pub const ENDLESS_MODEL_CHILDREN: u32 = 70;

thread_local! {
    static CP_COUNT: std::cell::Cell<u32> = const { std::cell::Cell::new(0) };
}

#[derive(Debug)]
pub struct InjectedFault(pub u8, pub u64);

#[derive(Clone, Copy, Debug, PartialEq, Eq, PartialOrd, Ord, Hash)]
pub struct Call {
    pub stage: u8,
    pub id: u64,
    pub thread: u16,
}

pub static CALLS: Mutex<Vec<Call>> = Mutex::new(Vec::new());

pub fn reset() {
    for i in 0..N_STAGES {
        FMASK[i].store(u64::MAX, SeqCst);
        EXPAND[i].store(0x5555_5555_5555_5555, SeqCst);
    }
    PANIC_AT.store(u64::MAX, SeqCst);
    CLOSURE_POINTS.store(false, SeqCst);
    CLOSURE_POINTS_LIMIT.store(0, SeqCst);
    QUIET.store(false, SeqCst);
    FAULT_PAYLOAD.store(0, SeqCst);
    PRED_IDS[0].store(u64::MAX, SeqCst);
    PRED_IDS[1].store(u64::MAX, SeqCst);
    EXP_MODE.store(0, SeqCst);
    EXP_PRODUCED.store(0, SeqCst);
    EXP_RUNAWAY.store(false, SeqCst);
    CP_COUNT.with(|c| c.set(0));
    N_CALLS.store(0, SeqCst);
    CALLS.lock().unwrap_or_else(|e| e.into_inner()).clear();
}

pub fn take_calls() -> Vec<Call> {
    std::mem::take(&mut *CALLS.lock().unwrap_or_else(|e| e.into_inner()))
}

/// fault id wildcard: the first call of the stage panics
pub const ANY_ID: u64 = 0x00FF_FFFF_FFFF_FFFF;
/// fault id wildcard: every call of the stage panics (several workers panic in the same run)
pub const ALL_ID: u64 = 0x00FF_FFFF_FFFF_FFFE;

pub fn enc_fault(stage: u8, id: u64) -> u64 {
    ((stage as u64) << 56) | (id & 0x00FF_FFFF_FFFF_FFFF)
}

// ---- pure semantics shared by the real closures and the reference model ----

pub fn label(stage: u8, id: u64, k: u32) -> u64 {
    (id << 5) | ((stage as u64 + 1) << 2) | (k as u64 & 3)
}
pub fn keep(stage: u8, slot: u8) -> bool {
    (FMASK[stage as usize].load(SeqCst) >> (slot & 63)) & 1 == 1
}
pub fn n_children(stage: u8, slot: u8) -> u32 {
    match EXP_MODE.load(SeqCst) {
        2 => return ENDLESS_MODEL_CHILDREN,
        3 if slot % 4 == 0 => return LONG_EXPANSION,
        4 if slot % 4 == 0 => return INEXACT_EXPANSION,
        _ => {}
    }
    ((EXPAND[stage as usize].load(SeqCst) >> (2 * (slot as u32 & 31))) & 3) as u32
}
/// the find / any / all predicate: by identity if PRED_IDS is set, else by slot mask
pub fn pred_accepts(id: u64, slot: u8) -> bool {
    let a = PRED_IDS[0].load(SeqCst);
    if a != u64::MAX {
        id == a || id == PRED_IDS[1].load(SeqCst)
    } else {
        keep(ST_PRED, slot)
    }
}
pub fn child_slot(slot: u8, k: u32) -> u8 {
    ((slot as u32 * 3 + k as u32) & 63) as u8
}

// ---- call bookkeeping ----

struct Flag;
impl Drop for Flag {
    fn drop(&mut self) {
        sched::set_flag(false);
    }
}

#[inline]
fn enter(stage: u8, id: u64) -> Flag {
    if QUIET.load(SeqCst) {
        N_CALLS.fetch_add(1, SeqCst);
        return Flag;
    }
    let t = sched::current_thread().map(|x| x as u16).unwrap_or(u16::MAX);
    sched::set_flag(true);
    let flag = Flag;
    let mut as_point = CLOSURE_POINTS.load(SeqCst);
    if as_point {
        let lim = CLOSURE_POINTS_LIMIT.load(SeqCst);
        if lim > 0 {
            let n = CP_COUNT.with(|c| {
                c.set(c.get() + 1);
                c.get()
            });
            as_point = n <= lim;
        }
    }
    if as_point {
        sched::point(OpKind::Closure, stage as i64, id as i64);
    } else {
        sched::note(OpKind::Closure, stage as i64, id as i64);
    }
    N_CALLS.fetch_add(1, SeqCst);
    CALLS.lock().unwrap_or_else(|e| e.into_inner()).push(Call { stage, id, thread: t });
    let fault = PANIC_AT.load(SeqCst);
    if fault == enc_fault(stage, id) || fault == enc_fault(stage, ANY_ID) || fault == enc_fault(stage, ALL_ID) {
        match FAULT_PAYLOAD.load(SeqCst) {
            0 => panic!("injected fault at stage {} id {:#x}", stage, id),
            1 => panic!("injected fault"),
            _ => std::panic::panic_any(InjectedFault(stage, id)),
        }
    }
    flag
}

// ---- the closures ----

pub fn m<I: Item>(stage: u8) -> impl Fn(I) -> Tok + Clone + Send + Sync {
    move |x: I| {
        let (id, slot) = (x.id(), x.slot());
        let _f = enter(stage, id);
        let out = Tok::new(label(stage, id, 0), slot);
        drop(x);
        out
    }
}

pub fn f<I: Item>(stage: u8) -> impl Fn(&I) -> bool + Clone + Send + Sync {
    move |x: &I| {
        let _f = enter(stage, x.id());
        keep(stage, x.slot())
    }
}

/// The expansion a flat_map closure returns (see EXP_MODE).
pub enum Exp {
    Eager(std::vec::IntoIter<Tok>),
    Lazy { stage: u8, id: u64, slot: u8, k: u32, n: u32, inexact: bool },
}

impl Iterator for Exp {
    type Item = Tok;
    fn next(&mut self) -> Option<Tok> {
        let out = match self {
            Exp::Eager(it) => it.next(),
            Exp::Lazy { stage, id, slot, k, n, .. } => {
                if *k >= *n {
                    None
                } else if *k >= RUNAWAY_LIMIT && *n == u32::MAX {
                    EXP_RUNAWAY.store(true, SeqCst);
                    *n = 0;
                    None
                } else {
                    let t = Tok::new(label(*stage, *id, *k), child_slot(*slot, *k));
                    *k += 1;
                    Some(t)
                }
            }
        };
        if out.is_some() {
            EXP_PRODUCED.fetch_add(1, SeqCst);
        }
        out
    }
    fn size_hint(&self) -> (usize, Option<usize>) {
        match self {
            Exp::Eager(it) => it.size_hint(),
            Exp::Lazy { k, n, .. } if *n == u32::MAX => (usize::MAX, None),
            Exp::Lazy { k, n, inexact: true, .. } => (((*n - *k.min(n)) as usize * 3) / 4, None),
            Exp::Lazy { k, n, .. } => ((*n - *k.min(n)) as usize, Some((*n - *k.min(n)) as usize)),
        }
    }
}

pub fn x<I: Item>(stage: u8) -> impl Fn(I) -> Exp + Clone + Send + Sync {
    move |x: I| {
        let (id, slot) = (x.id(), x.slot());
        let _f = enter(stage, id);
        let out = match EXP_MODE.load(SeqCst) {
            0 => {
                let n = n_children(stage, slot);
                let v: Vec<Tok> = (0..n).map(|k| Tok::new(label(stage, id, k), child_slot(slot, k))).collect();
                Exp::Eager(v.into_iter())
            }
            1 | 3 => Exp::Lazy { stage, id, slot, k: 0, n: n_children(stage, slot), inexact: false },
            4 => Exp::Lazy { stage, id, slot, k: 0, n: n_children(stage, slot), inexact: true },
            _ => Exp::Lazy { stage, id, slot, k: 0, n: u32::MAX, inexact: false },
        };
        drop(x);
        out
    }
}

pub fn o<I: Item>(stage: u8) -> impl Fn(I) -> Option<Tok> + Clone + Send + Sync {
    move |x: I| {
        let (id, slot) = (x.id(), x.slot());
        let _f = enter(stage, id);
        let out = match keep(stage, slot) {
            true => Some(Tok::new(label(stage, id, 0), slot)),
            false => None,
        };
        drop(x);
        out
    }
}

pub fn r<I: Item>(stage: u8) -> impl Fn(I) -> Result<Tok, u8> + Clone + Send + Sync {
    move |x: I| {
        let (id, slot) = (x.id(), x.slot());
        let _f = enter(stage, id);
        let out = match keep(stage, slot) {
            true => Ok(Tok::new(label(stage, id, 0), slot)),
            false => Err(slot),
        };
        drop(x);
        out
    }
}

/// stage 3: a filter that keeps everything, placed *inside a source constructor* in front of `copied()` / `cloned()`
/// (its calls show whether those adaptors evaluate what precedes them)
pub const ST_PRE: u8 = 3;
pub fn pre_stage(id: u64) -> bool {
    let _f = enter(ST_PRE, id);
    true
}

pub fn pred<I: Item>() -> impl Fn(&I) -> bool + Clone + Send + Sync {
    move |x: &I| {
        let _f = enter(ST_PRED, x.id());
        pred_accepts(x.id(), x.slot())
    }
}

pub fn red<I: Item>(kind: u8) -> impl Fn(I, I) -> I + Clone + Send + Sync {
    move |a: I, b: I| {
        let _f = enter(ST_RED, a.val() ^ b.val().rotate_left(1));
        I::red(a, b, kind)
    }
}

pub fn fe<I: Item>() -> impl Fn(I) + Clone + Send + Sync {
    move |x: I| {
        let _f = enter(ST_FOREACH, x.id());
        drop(x);
    }
}

/// key function for *_by_key: keys collide on purpose (ties), key = slot / 2
pub fn key<I: Item>() -> impl Fn(&I) -> u8 + Clone + Send + Sync {
    move |x: &I| {
        let _f = enter(ST_KEY, x.id());
        x.slot() / 2
    }
}

pub fn cmp<I: Item>() -> impl Fn(&I, &I) -> std::cmp::Ordering + Clone + Send + Sync {
    move |a: &I, b: &I| {
        let _f = enter(ST_KEY, a.id());
        (a.slot() / 2).cmp(&(b.slot() / 2))
    }
}
