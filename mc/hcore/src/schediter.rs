//! `SchedIter<I>`: a concurrent iterator that delegates to the real `I` and inserts a scheduling point +
//! log entry before every source operation (pulls of all kinds, `skip_to_end`).

use orx_concurrent_iter::iter::{BufferedChunk, BufferedChunkX};
use orx_concurrent_iter::{ConcurrentIter, ConcurrentIterX, Next, NextChunk};
use sched::OpKind;

pub const P_NEXT: i64 = 0;
pub const P_NEXT_ID: i64 = 1;
pub const P_CHUNK_X: i64 = 2;
pub const P_CHUNK: i64 = 3;
pub const P_PULL_X: i64 = 4;
pub const P_PULL: i64 = 5;

pub struct SchedIter<I> {
    pub inner: I,
}

impl<I> SchedIter<I> {
    pub fn new(inner: I) -> Self {
        SchedIter { inner }
    }
}

pub struct SchedIterX<X> {
    pub inner: X,
}

pub struct SchedBuf<I: ConcurrentIter> {
    inner: I::BufferedIter,
}

pub struct SchedBufX<X: ConcurrentIterX> {
    inner: X::BufferedIterX,
}

#[inline]
fn before_pull(req: usize, how: i64) -> usize {
    sched::point(OpKind::Pull, req as i64, how)
}

#[inline]
fn after_pull(h: usize, begin: Option<usize>, got: usize) {
    sched::set_result_at(h, begin.map(|x| x as i64).unwrap_or(-1), got as i64);
}

// ---- SchedIter: full ConcurrentIter ----

impl<I: ConcurrentIter> ConcurrentIterX for SchedIter<I> {
    type Item = I::Item;
    type SeqIter = I::SeqIter;
    type BufferedIterX = SchedBuf<I>;

    fn into_seq_iter(self) -> Self::SeqIter {
        self.inner.into_seq_iter()
    }

    fn next_chunk_x(&self, chunk_size: usize) -> Option<impl ExactSizeIterator<Item = Self::Item>> {
        let h = before_pull(chunk_size, P_CHUNK_X);
        let r = self.inner.next_chunk_x(chunk_size);
        after_pull(h, None, r.as_ref().map(|x| x.len()).unwrap_or(0));
        r
    }

    fn next(&self) -> Option<Self::Item> {
        let h = before_pull(1, P_NEXT);
        let r = self.inner.next();
        after_pull(h, None, r.is_some() as usize);
        r
    }

    fn skip_to_end(&self) {
        sched::point(OpKind::Skip, 0, 0);
        self.inner.skip_to_end()
    }

    fn try_get_len(&self) -> Option<usize> {
        self.inner.try_get_len()
    }

    fn try_get_initial_len(&self) -> Option<usize> {
        self.inner.try_get_initial_len()
    }
}

impl<I: ConcurrentIter> ConcurrentIter for SchedIter<I> {
    type BufferedIter = SchedBuf<I>;

    fn into_con_iter_x(self) -> impl ConcurrentIterX<Item = Self::Item>
    where
        Self: Sized,
    {
        SchedIterX { inner: self.inner.into_con_iter_x() }
    }

    fn next_id_and_value(&self) -> Option<Next<Self::Item>> {
        let h = before_pull(1, P_NEXT_ID);
        let r = self.inner.next_id_and_value();
        after_pull(h, r.as_ref().map(|x| x.idx), r.is_some() as usize);
        r
    }

    fn next_chunk(&self, chunk_size: usize) -> Option<NextChunk<Self::Item, impl ExactSizeIterator<Item = Self::Item>>> {
        let h = before_pull(chunk_size, P_CHUNK);
        let r = self.inner.next_chunk(chunk_size);
        after_pull(h, r.as_ref().map(|x| x.begin_idx), r.as_ref().map(|x| x.values.len()).unwrap_or(0));
        r
    }
}

impl<I: ConcurrentIter> BufferedChunkX<I::Item> for SchedBuf<I> {
    type ConIter = SchedIter<I>;

    fn new(chunk_size: usize) -> Self {
        SchedBuf { inner: <I::BufferedIter as BufferedChunkX<I::Item>>::new(chunk_size) }
    }

    fn chunk_size(&self) -> usize {
        self.inner.chunk_size()
    }

    fn pull_x(&mut self, iter: &Self::ConIter) -> Option<impl ExactSizeIterator<Item = I::Item>> {
        let h = before_pull(self.inner.chunk_size(), P_PULL_X);
        let r = self.inner.pull_x(&iter.inner);
        after_pull(h, None, r.as_ref().map(|x| x.len()).unwrap_or(0));
        r
    }
}

impl<I: ConcurrentIter> BufferedChunk<I::Item> for SchedBuf<I> {
    fn pull(&mut self, iter: &Self::ConIter) -> Option<NextChunk<I::Item, impl ExactSizeIterator<Item = I::Item>>> {
        let h = before_pull(self.inner.chunk_size(), P_PULL);
        let r = self.inner.pull(&iter.inner);
        after_pull(h, r.as_ref().map(|x| x.begin_idx), r.as_ref().map(|x| x.values.len()).unwrap_or(0));
        r
    }
}

// ---- SchedIterX: the reduced-interface iterator returned by into_con_iter_x ----

impl<X: ConcurrentIterX> ConcurrentIterX for SchedIterX<X> {
    type Item = X::Item;
    type SeqIter = X::SeqIter;
    type BufferedIterX = SchedBufX<X>;

    fn into_seq_iter(self) -> Self::SeqIter {
        self.inner.into_seq_iter()
    }

    fn next_chunk_x(&self, chunk_size: usize) -> Option<impl ExactSizeIterator<Item = Self::Item>> {
        let h = before_pull(chunk_size, P_CHUNK_X);
        let r = self.inner.next_chunk_x(chunk_size);
        after_pull(h, None, r.as_ref().map(|x| x.len()).unwrap_or(0));
        r
    }

    fn next(&self) -> Option<Self::Item> {
        let h = before_pull(1, P_NEXT);
        let r = self.inner.next();
        after_pull(h, None, r.is_some() as usize);
        r
    }

    fn skip_to_end(&self) {
        sched::point(OpKind::Skip, 0, 0);
        self.inner.skip_to_end()
    }

    fn try_get_len(&self) -> Option<usize> {
        self.inner.try_get_len()
    }

    fn try_get_initial_len(&self) -> Option<usize> {
        self.inner.try_get_initial_len()
    }
}

impl<X: ConcurrentIterX> BufferedChunkX<X::Item> for SchedBufX<X> {
    type ConIter = SchedIterX<X>;

    fn new(chunk_size: usize) -> Self {
        SchedBufX { inner: <X::BufferedIterX as BufferedChunkX<X::Item>>::new(chunk_size) }
    }

    fn chunk_size(&self) -> usize {
        self.inner.chunk_size()
    }

    fn pull_x(&mut self, iter: &Self::ConIter) -> Option<impl ExactSizeIterator<Item = X::Item>> {
        let h = before_pull(self.inner.chunk_size(), P_PULL_X);
        let r = self.inner.pull_x(&iter.inner);
        after_pull(h, None, r.as_ref().map(|x| x.len()).unwrap_or(0));
        r
    }
}
