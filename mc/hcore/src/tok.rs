//! Drop-observing item type. A `Tok` owns no heap memory: dropping garbage memory as a `Tok` is
//! *observed* (canary mismatch / serial not live) instead of crashing.

use std::sync::Mutex;

const MAGIC: u64 = 0x70C0_7A9E_5EED_C0DE;

pub struct Tok {
    canary: u64,
    serial: u32,
    pub slot: u8,
    pub id: u64,
    pub val: u64,
}

#[derive(Clone, Debug, Default, PartialEq, Eq)]
pub struct Table {
    /// 1 = live, 2 = dropped
    pub state: Vec<u8>,
    pub ids: Vec<u64>,
    pub double_drop: u32,
    pub garbage_drop: u32,
    pub clones: u32,
}

#[derive(Clone, Debug, Default, PartialEq, Eq)]
pub struct DropSummary {
    pub created: u32,
    pub live: u32,
    pub dropped: u32,
    pub double_drop: u32,
    pub garbage_drop: u32,
    pub live_ids: Vec<u64>,
}

pub static TABLE: Mutex<Table> = Mutex::new(Table { state: Vec::new(), ids: Vec::new(), double_drop: 0, garbage_drop: 0, clones: 0 });

fn table() -> std::sync::MutexGuard<'static, Table> {
    TABLE.lock().unwrap_or_else(|e| e.into_inner())
}

pub fn reset_table() {
    let mut t = table();
    t.state.clear();
    t.ids.clear();
    t.double_drop = 0;
    t.garbage_drop = 0;
    t.clones = 0;
}

pub fn created() -> u32 {
    table().state.len() as u32
}

pub fn drop_summary() -> DropSummary {
    let t = table();
    let mut s = DropSummary { created: t.state.len() as u32, double_drop: t.double_drop, garbage_drop: t.garbage_drop, ..Default::default() };
    for (i, st) in t.state.iter().enumerate() {
        match st {
            1 => {
                s.live += 1;
                s.live_ids.push(t.ids[i]);
            }
            2 => s.dropped += 1,
            _ => {}
        }
    }
    s
}

#[inline]
pub fn mixv(id: u64) -> u64 {
    sched::hash64(id ^ 0x5151_5151)
}

impl Tok {
    pub fn new(id: u64, slot: u8) -> Tok {
        Tok::with_val(id, slot, mixv(id))
    }
    pub fn with_val(id: u64, slot: u8, val: u64) -> Tok {
        let mut t = table();
        let serial = t.state.len() as u32;
        t.state.push(1);
        t.ids.push(id);
        Tok { canary: MAGIC, serial, slot, id, val }
    }
}

impl Drop for Tok {
    fn drop(&mut self) {
        let mut t = table();
        if self.canary != MAGIC || self.serial as usize >= t.state.len() {
            t.garbage_drop += 1;
            return;
        }
        match t.state[self.serial as usize] {
            1 => t.state[self.serial as usize] = 2,
            _ => t.double_drop += 1,
        }
    }
}

impl Clone for Tok {
    fn clone(&self) -> Tok {
        table().clones += 1;
        Tok::with_val(self.id, self.slot, self.val)
    }
}

impl std::fmt::Debug for Tok {
    fn fmt(&self, f: &mut std::fmt::Formatter<'_>) -> std::fmt::Result {
        write!(f, "Tok({:#x})", self.id)
    }
}

impl PartialEq for Tok {
    fn eq(&self, o: &Tok) -> bool {
        self.id == o.id
    }
}
impl Eq for Tok {}
impl PartialOrd for Tok {
    fn partial_cmp(&self, o: &Tok) -> Option<std::cmp::Ordering> {
        Some(self.cmp(o))
    }
}
impl Ord for Tok {
    fn cmp(&self, o: &Tok) -> std::cmp::Ordering {
        self.id.cmp(&o.id)
    }
}
impl std::hash::Hash for Tok {
    fn hash<H: std::hash::Hasher>(&self, h: &mut H) {
        self.id.hash(h)
    }
}
impl Default for Tok {
    fn default() -> Tok {
        Tok::with_val(ID_DEFAULT, 0, 0)
    }
}
impl std::ops::Add for Tok {
    type Output = Tok;
    fn add(self, o: Tok) -> Tok {
        Tok::with_val(ID_REDUCED, 0, self.val.wrapping_add(o.val))
    }
}

pub const ID_REDUCED: u64 = u64::MAX - 1;
pub const ID_DEFAULT: u64 = u64::MAX - 2;

/// reduce operator kinds (all associative and commutative)
pub const RED_ADD: u8 = 0;
pub const RED_XOR: u8 = 1;
pub const RED_MIN: u8 = 2;
pub const RED_MAX: u8 = 3;
/// non-commutative, non-associative: for sequential mode only (C09)
pub const RED_SUBCAT: u8 = 4;

pub fn red_vals(a: u64, b: u64, kind: u8) -> u64 {
    match kind {
        RED_ADD => a.wrapping_add(b),
        RED_XOR => a ^ b,
        RED_MIN => a.min(b),
        RED_MAX => a.max(b),
        // left-to-right sensitive: f(a,b) = 3a - b + 1 (neither associative nor commutative)
        _ => a.wrapping_mul(3).wrapping_sub(b).wrapping_add(1),
    }
}

/// What the harness needs from the item type of a pipeline stage.
pub trait Item: Send + Sync + Sized {
    fn id(&self) -> u64;
    fn slot(&self) -> u8;
    fn val(&self) -> u64;
    fn red(a: Self, b: Self, kind: u8) -> Self;
    /// `n` pre-existing target elements for collect_into (ids PREFIX_BASE + i)
    fn prefix(n: usize) -> Vec<Self>;
}

pub const PREFIX_BASE: u64 = 0x7000_0000;

/// pool of never-dropped tokens that reference items can point to
fn static_prefix_pool() -> &'static Vec<Tok> {
    static POOL: std::sync::OnceLock<Vec<Tok>> = std::sync::OnceLock::new();
    POOL.get_or_init(|| (0..16).map(|i| Tok { canary: MAGIC, serial: u32::MAX, slot: 0, id: PREFIX_BASE + i, val: mixv(PREFIX_BASE + i) }).collect())
}

impl Item for Tok {
    fn id(&self) -> u64 {
        self.id
    }
    fn slot(&self) -> u8 {
        self.slot
    }
    fn val(&self) -> u64 {
        self.val
    }
    fn red(a: Tok, b: Tok, kind: u8) -> Tok {
        Tok::with_val(ID_REDUCED, 0, red_vals(a.val, b.val, kind))
    }
    fn prefix(n: usize) -> Vec<Tok> {
        (0..n).map(|i| Tok::new(PREFIX_BASE + i as u64, 0)).collect()
    }
}

impl Item for &Tok {
    fn id(&self) -> u64 {
        self.id
    }
    fn slot(&self) -> u8 {
        self.slot
    }
    fn val(&self) -> u64 {
        self.val
    }
    /// references cannot create new values: selection operators only (min / max by val)
    fn red(a: Self, b: Self, kind: u8) -> Self {
        match kind {
            RED_MIN | RED_XOR => {
                if b.val < a.val {
                    b
                } else {
                    a
                }
            }
            RED_SUBCAT => b,
            _ => {
                if b.val > a.val {
                    b
                } else {
                    a
                }
            }
        }
    }
    fn prefix(n: usize) -> Vec<Self> {
        static_prefix_pool().iter().take(n).collect()
    }
}

impl Item for usize {
    fn id(&self) -> u64 {
        *self as u64
    }
    fn slot(&self) -> u8 {
        // range sources are `1..n+1`: value = position + 1 = id, slot = position
        (self.wrapping_sub(1) & 63) as u8
    }
    fn val(&self) -> u64 {
        *self as u64
    }
    fn red(a: usize, b: usize, kind: u8) -> usize {
        red_vals(a as u64, b as u64, kind) as usize
    }
    fn prefix(n: usize) -> Vec<usize> {
        (0..n).map(|i| PREFIX_BASE as usize + i).collect()
    }
}

/// Item without drop glue and with a hand-written, observable `Clone` (the clone generation is part of the
/// id): used for `cloned()`, where a bitwise copy instead of `Clone::clone` must be visible.
#[derive(Debug, PartialEq, Eq, PartialOrd, Ord, Hash)]
pub struct Cp {
    pub id: u64,
    pub slot: u8,
    pub gen: u32,
    pub val: u64,
}

pub const GEN_SHIFT: u32 = 40;

impl Cp {
    pub fn new(id: u64, slot: u8) -> Cp {
        Cp { id, slot, gen: 0, val: mixv(id) }
    }
}

impl Clone for Cp {
    fn clone(&self) -> Cp {
        let gen = self.gen + 1;
        Cp { id: self.id, slot: self.slot, gen, val: mixv(self.id + ((gen as u64) << GEN_SHIFT)) }
    }
}

impl Item for Cp {
    fn id(&self) -> u64 {
        self.id + ((self.gen as u64) << GEN_SHIFT)
    }
    fn slot(&self) -> u8 {
        self.slot
    }
    fn val(&self) -> u64 {
        self.val
    }
    fn red(a: Cp, b: Cp, kind: u8) -> Cp {
        Cp { id: ID_REDUCED, slot: 0, gen: 0, val: red_vals(a.val, b.val, kind) }
    }
    fn prefix(n: usize) -> Vec<Cp> {
        (0..n).map(|i| Cp::new(PREFIX_BASE + i as u64, 0)).collect()
    }
}

impl Item for &Cp {
    fn id(&self) -> u64 {
        self.id + ((self.gen as u64) << GEN_SHIFT)
    }
    fn slot(&self) -> u8 {
        self.slot
    }
    fn val(&self) -> u64 {
        self.val
    }
    fn red(a: Self, b: Self, kind: u8) -> Self {
        match kind {
            RED_MIN | RED_XOR => {
                if b.val < a.val {
                    b
                } else {
                    a
                }
            }
            RED_SUBCAT => b,
            _ => {
                if b.val > a.val {
                    b
                } else {
                    a
                }
            }
        }
    }
    fn prefix(n: usize) -> Vec<Self> {
        static POOL: std::sync::OnceLock<Vec<Cp>> = std::sync::OnceLock::new();
        POOL.get_or_init(|| (0..16).map(|i| Cp::new(PREFIX_BASE + i, 0)).collect()).iter().take(n).collect()
    }
}

/// A token ordered by `slot / 2` only: distinguishable elements that compare `Equal` (ties of `min()` / `max()`).
pub struct TieTok(pub Tok);

impl PartialEq for TieTok {
    fn eq(&self, o: &TieTok) -> bool {
        self.0.slot / 2 == o.0.slot / 2
    }
}
impl Eq for TieTok {}
impl PartialOrd for TieTok {
    fn partial_cmp(&self, o: &TieTok) -> Option<std::cmp::Ordering> {
        Some(self.cmp(o))
    }
}
impl Ord for TieTok {
    fn cmp(&self, o: &TieTok) -> std::cmp::Ordering {
        (self.0.slot / 2).cmp(&(o.0.slot / 2))
    }
}

/// A 136-byte item (wider than a cache line).
pub struct Wide(pub Tok, pub [u64; 12]);

impl Wide {
    pub fn new(t: Tok) -> Wide {
        Wide(t, [0; 12])
    }
}

/// A 64 KiB item: byte-size thresholds (chunk buffers, per-worker vectors) are reached with few elements.
pub struct Big(pub Tok, pub [u64; 8186]);

impl Big {
    pub fn new(t: Tok) -> Big {
        Big(t, [0; 8186])
    }
}

impl Item for Big {
    fn id(&self) -> u64 {
        self.0.id
    }
    fn slot(&self) -> u8 {
        self.0.slot
    }
    fn val(&self) -> u64 {
        self.0.val
    }
    fn red(a: Self, b: Self, kind: u8) -> Self {
        Big::new(Tok::red(a.0, b.0, kind))
    }
    fn prefix(n: usize) -> Vec<Self> {
        Tok::prefix(n).into_iter().map(Big::new).collect()
    }
}

/// map collections yield (key, value) pairs
impl Item for (u8, Tok) {
    fn id(&self) -> u64 {
        self.1.id
    }
    fn slot(&self) -> u8 {
        self.1.slot
    }
    fn val(&self) -> u64 {
        self.1.val
    }
    fn red(a: Self, b: Self, kind: u8) -> Self {
        (a.0.min(b.0), Tok::red(a.1, b.1, kind))
    }
    fn prefix(n: usize) -> Vec<Self> {
        Tok::prefix(n).into_iter().map(|t| (0u8, t)).collect()
    }
}

impl<'a> Item for (&'a u8, &'a Tok) {
    fn id(&self) -> u64 {
        self.1.id
    }
    fn slot(&self) -> u8 {
        self.1.slot
    }
    fn val(&self) -> u64 {
        self.1.val
    }
    fn red(a: Self, b: Self, kind: u8) -> Self {
        let t = <&Tok as Item>::red(a.1, b.1, kind);
        if std::ptr::eq(t, a.1) {
            a
        } else {
            b
        }
    }
    fn prefix(n: usize) -> Vec<Self> {
        static KEYS: [u8; 16] = [0; 16];
        static_prefix_pool().iter().take(n).enumerate().map(|(i, t)| (&KEYS[i], t)).collect()
    }
}
