//! Instrumented by-value source iterator and the shared definition of source elements.

use crate::tok::Tok;
use sched::OpKind;
use std::sync::atomic::{AtomicBool, AtomicU32, Ordering::SeqCst};
use std::sync::Mutex;

pub static SRC_NEXTS: AtomicU32 = AtomicU32::new(0);
pub static SRC_POINTS: AtomicBool = AtomicBool::new(false);
pub static INSIDE: AtomicU32 = AtomicU32::new(0);
pub static MAX_INSIDE: AtomicU32 = AtomicU32::new(0);
/// (thread, position) of every element handed out by `LogIter::next`
pub static SRC_LOG: Mutex<Vec<(u16, u32)>> = Mutex::new(Vec::new());
/// long identity inputs: the value index at position p is p itself (not p mod 256), so all elements are distinct
pub static WIDE: AtomicBool = AtomicBool::new(false);

pub fn reset() {
    SRC_NEXTS.store(0, SeqCst);
    SRC_POINTS.store(false, SeqCst);
    INSIDE.store(0, SeqCst);
    MAX_INSIDE.store(0, SeqCst);
    SRC_LOG.lock().unwrap_or_else(|e| e.into_inner()).clear();
}

pub fn take_src_log() -> Vec<(u16, u32)> {
    std::mem::take(&mut *SRC_LOG.lock().unwrap_or_else(|e| e.into_inner()))
}

/// Source element at position `p`: `input[p]` is a *value index* (equal indices = duplicate values);
/// beyond the input (endless sources) the value index is the position itself.
pub fn src_elem(input: &[u8], p: usize) -> (u64, u8) {
    let v = if p < input.len() && !WIDE.load(SeqCst) { input[p] as u64 } else { p as u64 };
    (v + 1, (v & 63) as u8)
}

pub fn make_toks(input: &[u8]) -> Vec<Tok> {
    (0..input.len())
        .map(|p| {
            let (id, slot) = src_elem(input, p);
            Tok::new(id, slot)
        })
        .collect()
}

pub struct LogIter {
    pub input: Vec<u8>,
    pub pos: usize,
    /// report an exact size_hint
    pub known: bool,
    pub endless: bool,
}

impl LogIter {
    pub fn new(input: &[u8], known: bool, endless: bool) -> Self {
        LogIter { input: input.to_vec(), pos: 0, known, endless }
    }
}

impl Iterator for LogIter {
    type Item = Tok;

    fn next(&mut self) -> Option<Tok> {
        let n = INSIDE.fetch_add(1, SeqCst) + 1;
        MAX_INSIDE.fetch_max(n, SeqCst);
        if SRC_POINTS.load(SeqCst) {
            sched::point(OpKind::SrcNext, self.pos as i64, 0);
        } else if !crate::closures::QUIET.load(SeqCst) {
            sched::note(OpKind::SrcNext, self.pos as i64, 0);
        }
        let n2 = INSIDE.load(SeqCst);
        MAX_INSIDE.fetch_max(n2, SeqCst);
        let r = if self.pos < self.input.len() || self.endless {
            let (id, slot) = src_elem(&self.input, self.pos);
            let t = sched::current_thread().map(|x| x as u16).unwrap_or(u16::MAX);
            if !crate::closures::QUIET.load(SeqCst) {
                SRC_LOG.lock().unwrap_or_else(|e| e.into_inner()).push((t, self.pos as u32));
            }
            SRC_NEXTS.fetch_add(1, SeqCst);
            self.pos += 1;
            Some(Tok::new(id, slot))
        } else {
            None
        };
        INSIDE.fetch_sub(1, SeqCst);
        r
    }

    fn size_hint(&self) -> (usize, Option<usize>) {
        if self.known && !self.endless {
            let rem = self.input.len() - self.pos.min(self.input.len());
            (rem, Some(rem))
        } else {
            (0, None)
        }
    }
}
