//! A `Case` = (source kind, input, chain, terminal, parameter setters, closure parameters, fault, point
//! options). `run_case` executes it once on the real code under the controlled scheduler with a forced
//! schedule prefix and returns everything that was observed.

use crate::chaintab as chains;
use crate::closures::{self as cl, Call};
use crate::glue::{self, RunBegin};
use crate::settings::{CsSet, NtSet, Probe, Settings};
use crate::source::{self, src_elem};
use crate::tok::{self, DropSummary};
use crate::visit::{Term, TermResult, TermV};
use sched::{Config, ExecRecord};
use std::panic::{catch_unwind, AssertUnwindSafe};
use std::sync::atomic::Ordering::SeqCst;

#[derive(Clone, Copy, Debug, PartialEq, Eq, Hash)]
pub enum Src {
    SVec,
    SSlice,
    SIter,
    SRange,
    PVec,
    PVecRef,
    PSlice,
    PSliceAsPar,
    PArr3,
    PRange,
    PIter,
    PDeque,
    PDequeRef,
    PList,
    PListRef,
    PBTree,
    PBTreeRef,
    PHeap,
    PHeapRef,
    PHash,
    PHashRef,
    PClonedAd,
    PCopiedAd,
    PClonedIt,
    PConVec,
    PConSlice,
    PConRange,
    PConIter,
    PConIterPar,
    PBTreeMap,
    PBTreeMapRef,
    PHashMap,
    PHashMapRef,
    /// concurrent iterators of which the first 1-2 elements were taken before `into_par()`
    PConVecPre,
    PConSlicePre,
    PConRangePre,
    PConIterPre,
    PConIterParPre,
    /// wrapped Vec / by-value iterator of 64 KiB items (tok::Big)
    SBigVec,
    SBigIter,
    /// the range 1..usize::MAX (only with `endless` cases)
    PRangeMax,
    /// the range 1..2^spare+10 (only in explicit closure-free count items)
    PRangeBig,
    /// `par().filter(..).copied()` / `.cloned()` (only in explicit C16 / C12 items)
    PFltCopied,
    PFltCloned,
}

pub const ALL_SRC: [(Src, &str); 44] = [
    (Src::SVec, "svec"),
    (Src::SSlice, "sslice"),
    (Src::SIter, "siter"),
    (Src::SRange, "srange"),
    (Src::PVec, "pvec"),
    (Src::PVecRef, "pvecref"),
    (Src::PSlice, "pslice"),
    (Src::PSliceAsPar, "psliceaspar"),
    (Src::PArr3, "parr3"),
    (Src::PRange, "prange"),
    (Src::PIter, "piter"),
    (Src::PDeque, "pdeque"),
    (Src::PDequeRef, "pdequeref"),
    (Src::PList, "plist"),
    (Src::PListRef, "plistref"),
    (Src::PBTree, "pbtree"),
    (Src::PBTreeRef, "pbtreeref"),
    (Src::PHeap, "pheap"),
    (Src::PHeapRef, "pheapref"),
    (Src::PHash, "phash"),
    (Src::PHashRef, "phashref"),
    (Src::PClonedAd, "pclonedad"),
    (Src::PCopiedAd, "pcopiedad"),
    (Src::PClonedIt, "pclonedit"),
    (Src::PConVec, "pconvec"),
    (Src::PConSlice, "pconslice"),
    (Src::PConRange, "pconrange"),
    (Src::PConIter, "pconiter"),
    (Src::PConIterPar, "pconiterpar"),
    (Src::PBTreeMap, "pbtreemap"),
    (Src::PBTreeMapRef, "pbtreemapref"),
    (Src::PHashMap, "phashmap"),
    (Src::PHashMapRef, "phashmapref"),
    (Src::PConVecPre, "pconvecpre"),
    (Src::PConSlicePre, "pconslicepre"),
    (Src::PConRangePre, "pconrangepre"),
    (Src::PConIterPre, "pconiterpre"),
    (Src::PConIterParPre, "pconiterparpre"),
    (Src::SBigVec, "sbigvec"),
    (Src::SBigIter, "sbigiter"),
    (Src::PRangeMax, "prangemax"),
    (Src::PRangeBig, "prangebig"),
    (Src::PFltCopied, "pfltcopied"),
    (Src::PFltCloned, "pfltcloned"),
];

#[derive(Clone, Copy, Debug, PartialEq, Eq)]
pub enum Level {
    Full,
    Cover,
    Small,
}

#[derive(Clone, Copy, Debug, PartialEq, Eq)]
pub enum ItemKind {
    Owned,
    Ref,
    Usize,
}

impl Src {
    pub fn name(self) -> &'static str {
        ALL_SRC.iter().find(|x| x.0 == self).unwrap().1
    }
    pub fn parse(s: &str) -> Option<Src> {
        ALL_SRC.iter().find(|x| x.1 == s).map(|x| x.0)
    }
    /// which chains are instantiated for this source type
    pub fn level(self) -> Level {
        match chains::level_of(self.name()) {
            0 => Level::Full,
            1 => Level::Cover,
            _ => Level::Small,
        }
    }
    pub fn item_kind(self) -> ItemKind {
        match self {
            Src::SVec | Src::SIter | Src::SBigVec | Src::SBigIter | Src::PVec | Src::PIter | Src::PDeque | Src::PList | Src::PBTree | Src::PHeap | Src::PHash => ItemKind::Owned,
            Src::PClonedAd | Src::PClonedIt | Src::PFltCloned | Src::PConVec | Src::PConVecPre | Src::PConIterPre | Src::PConIterParPre | Src::PConIter | Src::PConIterPar | Src::PBTreeMap | Src::PHashMap => ItemKind::Owned,
            Src::SRange | Src::PRange | Src::PRangeMax | Src::PRangeBig | Src::PFltCopied | Src::PCopiedAd | Src::PConRange | Src::PConRangePre => ItemKind::Usize,
            _ => ItemKind::Ref,
        }
    }
    /// source operations are scheduling points (SchedIter wrapper)
    pub fn wrapped(self) -> bool {
        matches!(self, Src::SVec | Src::SSlice | Src::SIter | Src::SRange | Src::SBigVec | Src::SBigIter)
    }
    /// the source's length is known up front (given `known` for iterator sources)
    pub fn known_len(self, known: bool) -> bool {
        match self {
            Src::SIter | Src::SBigIter | Src::PIter | Src::PConIter | Src::PConIterPar | Src::PConIterPre | Src::PConIterParPre => known,
            Src::PHash | Src::PHashRef | Src::PBTree | Src::PBTreeRef | Src::PList | Src::PListRef | Src::PDeque | Src::PDequeRef | Src::PHeap | Src::PHeapRef => true,
            _ => true,
        }
    }
    pub fn supports(self, cid: usize) -> bool {
        match self.level() {
            Level::Full => true,
            Level::Cover => chains::COVER.contains(&cid),
            Level::Small => chains::SMALL.contains(&cid),
        }
    }
}

#[derive(Clone, Debug, PartialEq, Eq)]
pub struct Case {
    pub src: Src,
    /// value indices (equal = duplicate values)
    pub input: Vec<u8>,
    pub known: bool,
    pub endless: bool,
    pub chain: usize,
    pub term: Term,
    pub red_kind: u8,
    pub prefix: usize,
    pub spare: usize,
    pub nt: [NtSet; 4],
    pub cs: [CsSet; 4],
    pub cs_first: bool,
    pub fmask: [u64; 3],
    pub expand: [u64; 3],
    pub pmask: u64,
    pub fault: Option<(u8, u64)>,
    pub cpoints: bool,
    pub spoints: bool,
    /// the predicate accepts exactly the elements descending from these source positions (u32::MAX = unused;
    /// if both are unused the predicate is the slot mask `pmask`)
    pub pred_pos: [u32; 2],
    /// at most this many closure entries per thread are scheduling points (0 = all)
    pub cp_limit: u8,
    /// payload kind of the injected panic
    pub fault_payload: u8,
    /// no call logging (inputs of millions of elements)
    pub quiet: bool,
    /// how flat_map expansions are produced (closures::EXP_MODE): 0 container, 1 lazy, 2 lazy and endless
    pub exp_mode: u8,
    /// the computation is built (and run) inside a closure of another parallel computation, i.e. on one of
    /// that computation's worker threads
    pub nested: bool,
    /// the virtual clock the library sees (vatomic::time): 0 = every reading returns the same instant (closures
    /// take no time), 1 = every reading is one second after the previous one
    pub clk: u8,
}

impl Case {
    pub fn new(src: Src, n: usize, chain: &str, term: Term) -> Case {
        let cid = chains::CHAINS.iter().position(|c| *c == chain).unwrap_or_else(|| panic!("MACHINERY: unknown chain {}", chain));
        Case {
            src,
            input: (0..n as u8).collect(),
            known: true,
            endless: false,
            chain: cid,
            term,
            red_kind: 0,
            prefix: 0,
            spare: 0,
            nt: [NtSet::Keep; 4],
            cs: [CsSet::Keep; 4],
            cs_first: false,
            fmask: [u64::MAX; 3],
            expand: [0x5555_5555_5555_5555; 3],
            pmask: u64::MAX,
            fault: None,
            cpoints: false,
            spoints: false,
            pred_pos: [u32::MAX; 2],
            cp_limit: 0,
            fault_payload: 0,
            quiet: false,
            exp_mode: 0,
            nested: false,
            clk: 0,
        }
    }

    /// long identity inputs have distinct elements (see source::WIDE)
    pub fn wide(&self) -> bool {
        self.input.len() > 255 && self.input.iter().enumerate().all(|(i, v)| *v == i as u8)
    }

    /// the id with which the element descending from source position `pos` reaches the predicate (first child
    /// of every flat_map)
    pub fn id_at_pred(&self, pos: u32) -> u64 {
        let mut id = pos as u64 + 1;
        for (s, k) in self.kinds().iter().enumerate() {
            if *k != crate::model::Kind::F {
                id = cl::label(s as u8, id, 0);
            }
        }
        id
    }

    pub fn chain_str(&self) -> &'static str {
        chains::CHAINS[self.chain]
    }

    pub fn kinds(&self) -> Vec<crate::model::Kind> {
        crate::model::chain_from_str(self.chain_str())
    }

    pub fn encode(&self) -> String {
        // "#n" = value index i mod 256 at position i; "x.." = hex bytes; else one base-36 digit per element
        let identity = self.input.iter().enumerate().all(|(i, v)| *v == i as u8);
        let inp: String = if identity && self.input.len() > 9 {
            format!("#{}", self.input.len())
        } else if self.input.iter().any(|v| *v >= 36) {
            format!("x{}", self.input.iter().map(|v| format!("{:02x}", v)).collect::<String>())
        } else {
            self.input.iter().map(|v| char::from_digit(*v as u32, 36).unwrap()).collect()
        };
        let j = |v: Vec<String>| v.join(",");
        format!(
            "src={};in={};k={};e={};ch={};t={};rk={};pre={};sp={};nt={};cs={};cf={};fm={};ex={};pm={:x};fault={};cp={};spt={};pp={},{};cpl={};fp={};q={};xm={};ne={};clk={}",
            self.src.name(),
            if inp.is_empty() { "-".to_string() } else { inp },
            self.known as u8,
            self.endless as u8,
            if self.chain_str().is_empty() { "-" } else { self.chain_str() },
            self.term.name(),
            self.red_kind,
            self.prefix,
            self.spare,
            j(self.nt.iter().map(|x| x.to_str()).collect()),
            j(self.cs.iter().map(|x| x.to_str()).collect()),
            self.cs_first as u8,
            j(self.fmask.iter().map(|x| format!("{:x}", x)).collect()),
            j(self.expand.iter().map(|x| format!("{:x}", x)).collect()),
            self.pmask,
            match self.fault {
                None => "-".to_string(),
                Some((s, id)) => format!("{}:{:x}", s, id),
            },
            self.cpoints as u8,
            self.spoints as u8,
            self.pred_pos[0] as i64 - if self.pred_pos[0] == u32::MAX { u32::MAX as i64 + 1 } else { 0 },
            self.pred_pos[1] as i64 - if self.pred_pos[1] == u32::MAX { u32::MAX as i64 + 1 } else { 0 },
            self.cp_limit,
            self.fault_payload,
            self.quiet as u8,
            self.exp_mode,
            self.nested as u8,
            self.clk
        )
    }

    pub fn decode(s: &str) -> Case {
        let mut c = Case::new(Src::SVec, 0, "", Term::Count);
        for kv in s.split(';') {
            let (k, v) = kv.split_once('=').unwrap_or_else(|| panic!("MACHINERY: bad case field {}", kv));
            let hexs = |v: &str| -> Vec<u64> { v.split(',').map(|x| u64::from_str_radix(x, 16).unwrap()).collect() };
            match k {
                "src" => c.src = Src::parse(v).unwrap(),
                "in" => {
                    c.input = if v == "-" {
                        vec![]
                    } else if let Some(n) = v.strip_prefix('#') {
                        (0..n.parse::<usize>().unwrap()).map(|i| i as u8).collect()
                    } else if let Some(h) = v.strip_prefix('x') {
                        (0..h.len() / 2).map(|i| u8::from_str_radix(&h[2 * i..2 * i + 2], 16).unwrap()).collect()
                    } else {
                        v.chars().map(|ch| ch.to_digit(36).unwrap() as u8).collect()
                    }
                }
                "k" => c.known = v == "1",
                "e" => c.endless = v == "1",
                "ch" => {
                    let v = if v == "-" { "" } else { v };
                    c.chain = chains::CHAINS.iter().position(|x| *x == v).unwrap()
                }
                "t" => c.term = Term::parse(v).unwrap(),
                "rk" => c.red_kind = v.parse().unwrap(),
                "pre" => c.prefix = v.parse().unwrap(),
                "sp" => c.spare = v.parse().unwrap(),
                "nt" => {
                    for (i, x) in v.split(',').enumerate() {
                        c.nt[i] = NtSet::parse(x)
                    }
                }
                "cs" => {
                    for (i, x) in v.split(',').enumerate() {
                        c.cs[i] = CsSet::parse(x)
                    }
                }
                "cf" => c.cs_first = v == "1",
                "fm" => {
                    for (i, x) in hexs(v).into_iter().enumerate() {
                        c.fmask[i] = x
                    }
                }
                "ex" => {
                    for (i, x) in hexs(v).into_iter().enumerate() {
                        c.expand[i] = x
                    }
                }
                "pm" => c.pmask = u64::from_str_radix(v, 16).unwrap(),
                "fault" => {
                    c.fault = if v == "-" {
                        None
                    } else {
                        let (s, id) = v.split_once(':').unwrap();
                        Some((s.parse().unwrap(), u64::from_str_radix(id, 16).unwrap()))
                    }
                }
                "cp" => c.cpoints = v == "1",
                "spt" => c.spoints = v == "1",
                "pp" => {
                    for (i, x) in v.split(',').enumerate() {
                        let n: i64 = x.parse().unwrap();
                        c.pred_pos[i] = if n < 0 { u32::MAX } else { n as u32 };
                    }
                }
                "cpl" => c.cp_limit = v.parse().unwrap(),
                "fp" => c.fault_payload = v.parse().unwrap(),
                "q" => c.quiet = v == "1",
                "xm" => c.exp_mode = v.parse().unwrap(),
                "ne" => c.nested = v == "1",
                "clk" => c.clk = v.parse().unwrap(),
                _ => panic!("MACHINERY: unknown case field {}", k),
            }
        }
        c
    }

    /// the parameters in effect at the terminal call
    pub fn final_params(&self) -> orx_parallel::Params {
        Settings::new(self.nt, self.cs).expected_params(self.chain_str().len())
    }
}

#[derive(Clone, Debug)]
pub struct Obs {
    /// Err(panic message) if the terminal call panicked
    pub result: Result<TermResult, String>,
    pub calls: Vec<Call>,
    pub rec: ExecRecord,
    pub drops: DropSummary,
    pub clones: u32,
    pub runs: Vec<RunBegin>,
    pub probes: Vec<Probe>,
    pub src_log: Vec<(u16, u32)>,
    pub max_inside: u32,
    pub spawns: u32,
    /// the source sequence as the source really yields it sequentially: (id, slot)
    pub eff_input: Vec<(u64, u8)>,
    /// children handed out by flat_map expansions / an expansion was advanced beyond closures::RUNAWAY_LIMIT
    pub exp_produced: u64,
    pub exp_runaway: bool,
    /// nested cases: threads the outer computation had spawned when the body started, and the thread the body ran on
    pub base_spawns: u32,
    pub caller: u16,
}

pub fn elems_of(input: &[u8]) -> Vec<(u64, u8)> {
    (0..input.len()).map(|p| src_elem(input, p)).collect()
}

pub fn termv(case: &Case) -> TermV {
    TermV { term: case.term, red_kind: case.red_kind, prefix: case.prefix, spare: case.spare }
}

pub type Eff = Vec<(u64, u8)>;
/// builds the source, the chain and runs the terminal of a case (generated dispatch over the shard crates)
pub type BodyFn = fn(&Case, &Settings, &mut Eff) -> TermResult;

/// Installs the closure parameters of `case` into the global closure state.
pub fn install_params(case: &Case) {
    cl::reset();
    for i in 0..3 {
        cl::FMASK[i].store(case.fmask[i], SeqCst);
        cl::EXPAND[i].store(case.expand[i], SeqCst);
    }
    cl::FMASK[cl::ST_PRED as usize].store(case.pmask, SeqCst);
    cl::PANIC_AT.store(case.fault.map(|(s, id)| cl::enc_fault(s, id)).unwrap_or(u64::MAX), SeqCst);
    cl::CLOSURE_POINTS.store(case.cpoints, SeqCst);
    cl::CLOSURE_POINTS_LIMIT.store(case.cp_limit as u32, SeqCst);
    cl::QUIET.store(case.quiet, SeqCst);
    cl::EXP_MODE.store(case.exp_mode as u32, SeqCst);
    vatomic::time::reset(if case.clk == 0 { 0 } else { 1_000_000_000 });
    cl::FAULT_PAYLOAD.store(case.fault_payload as u32, SeqCst);
    for i in 0..2 {
        let id = if case.pred_pos[i] == u32::MAX { u64::MAX } else { case.id_at_pred(case.pred_pos[i]) };
        cl::PRED_IDS[i].store(id, SeqCst);
    }
    source::WIDE.store(case.wide(), SeqCst);
    // closure-free terminals over billions of elements run for minutes between two scheduling points
    sched::WATCHDOG_S.store(if case.src == Src::PRangeBig { 1_800 } else { 60 }, SeqCst);
}

/// (threads spawned before the nested body started) << 16 | logical thread that runs the body
static NESTED_BASE: std::sync::atomic::AtomicU64 = std::sync::atomic::AtomicU64::new(0);

struct AssertSend<T>(T);
unsafe impl<T> Send for AssertSend<T> {}
unsafe impl<T> Sync for AssertSend<T> {}

/// Runs `f` inside a closure of an outer parallel computation (two elements, two threads, chunk size 1; the
/// first element's closure calls `f`), so that whatever `f` builds is built on a worker thread.
fn nested<R>(f: impl FnOnce() -> R) -> R {
    use orx_parallel::{IntoPar, Par};
    let slot = AssertSend(std::sync::Mutex::new(Some(f)));
    let out: AssertSend<std::sync::Mutex<Option<R>>> = AssertSend(std::sync::Mutex::new(None));
    let (slot, out_ref) = (&slot, &out);
    vec![0usize, 1].into_par().num_threads(2).chunk_size(1).for_each(move |i| {
        if i == 0 {
            if sched::current_thread() == Some(0) {
                panic!("MACHINERY: the outer computation of a nested case ran its closure on the calling thread");
            }
            NESTED_BASE.store(((glue::take_spawn_count() as u64) << 16) | sched::current_thread().unwrap_or(0) as u64, SeqCst);
            let f = slot.0.lock().unwrap_or_else(|e| e.into_inner()).take().unwrap();
            let r = f();
            *out_ref.0.lock().unwrap_or_else(|e| e.into_inner()) = Some(r);
        }
    });
    let r = out.0.lock().unwrap_or_else(|e| e.into_inner()).take();
    r.expect("MACHINERY: the nested body did not run")
}

/// One execution of `case` on the real code with the forced choice prefix.
pub fn run_case(case: &Case, cfg: &Config, prefix: &[u8], body: BodyFn) -> Obs {
    source::reset();
    install_params(case);
    source::SRC_POINTS.store(case.spoints, SeqCst);
    tok::reset_table();
    glue::reset();
    let st = Settings { nt: case.nt, cs: case.cs, cs_first: case.cs_first, probes: Default::default() };
    let mut eff = Vec::new();
    let (result, rec) = sched::run_one(cfg, prefix, || {
        catch_unwind(AssertUnwindSafe(|| if case.nested { nested(|| body(case, &st, &mut eff)) } else { body(case, &st, &mut eff) })).map_err(|e| {
            if let Some(s) = e.downcast_ref::<&str>() {
                s.to_string()
            } else if let Some(s) = e.downcast_ref::<String>() {
                s.clone()
            } else if let Some(f) = e.downcast_ref::<cl::InjectedFault>() {
                format!("injected fault (custom payload) at stage {} id {:#x}", f.0, f.1)
            } else {
                "<non-string panic>".to_string()
            }
        })
    });
    if let Err(msg) = &result {
        if msg.contains("MACHINERY") {
            sched::machinery_error(&format!("{} (case {})", msg, case.encode()));
        }
    }
    let drops = tok::drop_summary();
    let clones = tok::TABLE.lock().unwrap_or_else(|e| e.into_inner()).clones;
    Obs {
        result,
        calls: cl::take_calls(),
        rec,
        drops,
        clones,
        runs: glue::take_runs(),
        probes: st.probes.into_inner(),
        src_log: source::take_src_log(),
        max_inside: source::MAX_INSIDE.load(SeqCst),
        spawns: glue::take_spawn_count(),
        eff_input: eff,
        exp_produced: cl::EXP_PRODUCED.load(SeqCst),
        exp_runaway: cl::EXP_RUNAWAY.load(SeqCst),
        base_spawns: if case.nested { (NESTED_BASE.load(SeqCst) >> 16) as u32 } else { 0 },
        caller: if case.nested { (NESTED_BASE.load(SeqCst) & 0xFFFF) as u16 } else { 0 },
    }
}
