//! Binds orx-parallel's `verif-hooks` and the vendored dependency's spin hook to the scheduler.

use orx_parallel::verif::Hooks;
use sched::OpKind;
use std::sync::Mutex;

#[derive(Clone, Debug, Default, PartialEq, Eq)]
pub struct RunBegin {
    pub max_threads: usize,
    pub chunk: usize,
    pub exact: bool,
    pub input_len: Option<usize>,
}

pub static RUNS: Mutex<Vec<RunBegin>> = Mutex::new(Vec::new());

pub static SPAWNS: std::sync::atomic::AtomicU32 = std::sync::atomic::AtomicU32::new(0);

pub fn take_spawn_count() -> u32 {
    SPAWNS.load(std::sync::atomic::Ordering::SeqCst)
}

pub fn reset() {
    SPAWNS.store(0, std::sync::atomic::Ordering::SeqCst);
    take_runs();
}

struct Glue;

impl Hooks for Glue {
    fn run_begin(&self, max_num_threads: usize, chunk_size: usize, exact: bool, input_len: Option<usize>) {
        RUNS.lock().unwrap_or_else(|e| e.into_inner()).push(RunBegin {
            max_threads: max_num_threads,
            chunk: chunk_size,
            exact,
            input_len,
        });
    }
    fn before_len(&self) {
        let _ = sched::point(OpKind::Len, 0, 0);
    }
    fn after_len(&self, len: Option<usize>) {
        sched::set_result(len.map(|x| x as i64).unwrap_or(-1), 0);
    }
    fn before_spawn(&self) -> usize {
        SPAWNS.fetch_add(1, std::sync::atomic::Ordering::SeqCst);
        sched::before_spawn()
    }
    fn worker_begin(&self, id: usize) {
        sched::worker_begin(id);
    }
    fn worker_end(&self, id: usize) {
        sched::worker_end(id);
    }
    fn before_join(&self, id: usize) {
        sched::before_join(id);
    }
    fn leave_scope(&self) {
        sched::leave_scope();
    }
}

static GLUE: Glue = Glue;

fn spin_hook() {
    sched::spin();
}

pub fn install() {
    orx_parallel::verif::install(&GLUE);
    orx_concurrent_iter::verif_set_spin_hook(spin_hook);
}

pub fn take_runs() -> Vec<RunBegin> {
    std::mem::take(&mut *RUNS.lock().unwrap_or_else(|e| e.into_inner()))
}
