//! Generic terminal runner: one `visit` instantiation per (chain type, source type) runs whichever
//! terminal the case selects at run time.

use crate::closures as cl;
use crate::tok::{Item, Tok};
use orx_fixed_vec::FixedVec;
use orx_parallel::Par;
use orx_split_vec::{Collection, Doubling, Linear, PinnedVec, SplitVec};

pub trait Visit {
    type Out;
    fn visit<Q: Par>(self, q: Q) -> Self::Out
    where
        Q::Item: Item;
    /// reduced terminal set (one terminal per kernel family) for the depth-3 chains outside the transition cover
    fn visit_lite<Q: Par>(self, q: Q) -> Self::Out
    where
        Q::Item: Item;
}

pub const LITE_TERMS: [Term; 6] = [Term::CollectVec, Term::CollectX, Term::Count, Term::Reduce, Term::Find, Term::Build];

pub trait VisitTok {
    type Out;
    fn visit<Q: Par<Item = Tok>>(self, q: Q) -> Self::Out;
}

#[derive(Clone, Copy, Debug, PartialEq, Eq, Hash)]
pub enum Term {
    CollectVec,
    Collect,
    CollectX,
    IntoVec,
    IntoSplitD,
    IntoSplitL,
    IntoFixed,
    /// SplitVec<Linear> with fragments of 4 elements: only with sources of known length (a map-only collect
    /// from a source of unknown length reserves 2^32 elements = 2^30 such fragments)
    IntoSplitL2,
    Count,
    ForEach,
    Reduce,
    Find,
    First,
    Any,
    All,
    FindIdx,
    FirstIdx,
    Fold,
    Sum,
    Min,
    Max,
    MinBy,
    MaxBy,
    MinByKey,
    MaxByKey,
    /// `min()` / `max()` over items whose `Ord` has ties between distinguishable elements (tok::TieTok)
    MinTie,
    MaxTie,
    /// collects of a zero-sized output type: `.map(|_| ())` appended to the chain, the result is the number of elements
    ZCollect,
    ZCollectVec,
    ZCollectX,
    ZIntoSplit,
    ZIntoVec,
    /// collects of a 136-byte (`W`) and a 64 KiB (`H`) output type: `.map(Wide::new)` / `.map(Big::new)` appended
    WCollect,
    WCollectVec,
    WCollectX,
    WIntoVec,
    HCollect,
    HCollectVec,
    HCollectX,
    /// build the computation, never run it
    Build,
}

pub const ALL_TERMS: [(Term, &str); 40] = [
    (Term::CollectVec, "collect_vec"),
    (Term::Collect, "collect"),
    (Term::CollectX, "collect_x"),
    (Term::IntoVec, "into_vec"),
    (Term::IntoSplitD, "into_splitd"),
    (Term::IntoSplitL, "into_splitl"),
    (Term::IntoFixed, "into_fixed"),
    (Term::IntoSplitL2, "into_splitl2"),
    (Term::Count, "count"),
    (Term::ForEach, "for_each"),
    (Term::Reduce, "reduce"),
    (Term::Find, "find"),
    (Term::First, "first"),
    (Term::Any, "any"),
    (Term::All, "all"),
    (Term::FindIdx, "find_idx"),
    (Term::FirstIdx, "first_idx"),
    (Term::Fold, "fold"),
    (Term::Sum, "sum"),
    (Term::Min, "min"),
    (Term::Max, "max"),
    (Term::MinBy, "min_by"),
    (Term::MaxBy, "max_by"),
    (Term::MinByKey, "min_by_key"),
    (Term::MaxByKey, "max_by_key"),
    (Term::MinTie, "min_tie"),
    (Term::MaxTie, "max_tie"),
    (Term::ZCollect, "zcollect"),
    (Term::ZCollectVec, "zcollect_vec"),
    (Term::ZCollectX, "zcollect_x"),
    (Term::ZIntoSplit, "zinto_split"),
    (Term::ZIntoVec, "zinto_vec"),
    (Term::WCollect, "wcollect"),
    (Term::WCollectVec, "wcollect_vec"),
    (Term::WCollectX, "wcollect_x"),
    (Term::WIntoVec, "winto_vec"),
    (Term::HCollect, "hcollect"),
    (Term::HCollectVec, "hcollect_vec"),
    (Term::HCollectX, "hcollect_x"),
    (Term::Build, "build"),
];

impl Term {
    pub fn name(self) -> &'static str {
        ALL_TERMS.iter().find(|x| x.0 == self).unwrap().1
    }
    pub fn parse(s: &str) -> Option<Term> {
        ALL_TERMS.iter().find(|x| x.1 == s).map(|x| x.0)
    }
    pub fn is_collect_ordered(self) -> bool {
        matches!(
            self,
            Term::CollectVec | Term::Collect | Term::IntoVec | Term::IntoSplitD | Term::IntoSplitL | Term::IntoFixed | Term::IntoSplitL2 | Term::WCollect | Term::WCollectVec | Term::WIntoVec | Term::HCollect | Term::HCollectVec
        )
    }
    pub fn is_collect_into(self) -> bool {
        matches!(self, Term::IntoVec | Term::IntoSplitD | Term::IntoSplitL | Term::IntoFixed | Term::IntoSplitL2)
    }
    pub fn is_short_circuit(self) -> bool {
        matches!(self, Term::Find | Term::First | Term::Any | Term::All | Term::FindIdx | Term::FirstIdx)
    }
    pub fn is_reduce_family(self) -> bool {
        matches!(
            self,
            Term::Reduce | Term::Fold | Term::Sum | Term::Min | Term::Max | Term::MinBy | Term::MaxBy | Term::MinByKey | Term::MaxByKey | Term::MinTie | Term::MaxTie
        )
    }
    pub fn needs_tok(self) -> bool {
        matches!(self, Term::Fold | Term::Sum | Term::Min | Term::Max | Term::MinBy | Term::MaxBy | Term::MinByKey | Term::MaxByKey | Term::MinTie | Term::MaxTie) || self.is_zst() || self.is_wide()
    }
    /// collects of a wide output type
    pub fn is_wide(self) -> bool {
        matches!(self, Term::WCollect | Term::WCollectVec | Term::WCollectX | Term::WIntoVec | Term::HCollect | Term::HCollectVec | Term::HCollectX)
    }
    /// terminals over a zero-sized item type
    pub fn is_zst(self) -> bool {
        matches!(self, Term::ZCollect | Term::ZCollectVec | Term::ZCollectX | Term::ZIntoSplit | Term::ZIntoVec)
    }
    pub fn uses_pred(self) -> bool {
        matches!(self, Term::Find | Term::Any | Term::All | Term::FindIdx)
    }
}

#[derive(Clone, Debug, PartialEq, Eq)]
pub enum TermResult {
    /// ids of a collection in its order
    Ids(Vec<u64>),
    /// (index if reported, id)
    Found(Option<(Option<usize>, u64)>),
    Count(usize),
    Bool(bool),
    /// (id, val, slot)
    Red(Option<(u64, u64, u8)>),
    Unit,
    NA,
}

pub struct TermV {
    pub term: Term,
    pub red_kind: u8,
    pub prefix: usize,
    pub spare: usize,
}

fn ids<'a, T: Item + 'a>(it: impl Iterator<Item = &'a T>) -> Vec<u64> {
    it.map(|x| x.id()).collect()
}

impl Visit for TermV {
    type Out = TermResult;

    fn visit<Q: Par>(self, q: Q) -> TermResult
    where
        Q::Item: Item,
    {
        match self.term {
            Term::CollectVec => {
                let v = q.collect_vec();
                TermResult::Ids(ids(v.iter()))
            }
            Term::Collect => {
                let v = q.collect();
                TermResult::Ids(ids(v.iter()))
            }
            Term::CollectX => {
                let v = q.collect_x();
                TermResult::Ids(ids(v.iter()))
            }
            Term::IntoVec => {
                let mut t: Vec<Q::Item> = Vec::with_capacity(self.prefix + self.spare);
                t.extend(<Q::Item as Item>::prefix(self.prefix));
                let v = q.collect_into(t);
                TermResult::Ids(ids(v.iter()))
            }
            Term::IntoSplitD => {
                let mut t: SplitVec<Q::Item, Doubling> = SplitVec::with_doubling_growth();
                for x in <Q::Item as Item>::prefix(self.prefix) {
                    t.push(x);
                }
                let v = q.collect_into(t);
                TermResult::Ids(ids(v.iter()))
            }
            Term::IntoSplitL => {
                let mut t: SplitVec<Q::Item, Linear> = SplitVec::with_linear_growth(14);
                for x in <Q::Item as Item>::prefix(self.prefix) {
                    t.push(x);
                }
                let v = q.collect_into(t);
                TermResult::Ids(ids(v.iter()))
            }
            Term::IntoSplitL2 => {
                let mut t: SplitVec<Q::Item, Linear> = SplitVec::with_linear_growth(2);
                for x in <Q::Item as Item>::prefix(self.prefix) {
                    t.push(x);
                }
                let v = q.collect_into(t);
                TermResult::Ids(ids(v.iter()))
            }
            Term::IntoFixed => {
                let mut t: FixedVec<Q::Item> = FixedVec::new(self.prefix + self.spare);
                for x in <Q::Item as Item>::prefix(self.prefix) {
                    t.push(x);
                }
                let v = q.collect_into(t);
                TermResult::Ids(ids(v.iter()))
            }
            Term::Count => TermResult::Count(q.count()),
            Term::ForEach => {
                q.for_each(cl::fe());
                TermResult::Unit
            }
            Term::Reduce => TermResult::Red(q.reduce(cl::red(self.red_kind)).map(|x| (x.id(), x.val(), x.slot()))),
            Term::Find => TermResult::Found(q.find(cl::pred()).map(|x| (None, x.id()))),
            Term::First => TermResult::Found(q.first().map(|x| (None, x.id()))),
            Term::Any => TermResult::Bool(q.any(cl::pred())),
            Term::All => TermResult::Bool(q.all(cl::pred())),
            Term::Build => {
                drop(q);
                TermResult::Unit
            }
            _ => TermResult::NA,
        }
    }

    fn visit_lite<Q: Par>(self, q: Q) -> TermResult
    where
        Q::Item: Item,
    {
        match self.term {
            Term::CollectVec => {
                let v = q.collect_vec();
                TermResult::Ids(ids(v.iter()))
            }
            Term::CollectX => {
                let v = q.collect_x();
                TermResult::Ids(ids(v.iter()))
            }
            Term::Count => TermResult::Count(q.count()),
            Term::Reduce => TermResult::Red(q.reduce(cl::red(self.red_kind)).map(|x| (x.id(), x.val(), x.slot()))),
            Term::Find => TermResult::Found(q.find(cl::pred()).map(|x| (None, x.id()))),
            Term::Build => {
                drop(q);
                TermResult::Unit
            }
            _ => TermResult::NA,
        }
    }
}

impl VisitTok for TermV {
    type Out = TermResult;

    fn visit<Q: Par<Item = Tok>>(self, q: Q) -> TermResult {
        let r = |x: Option<Tok>| TermResult::Red(x.map(|x| (x.id, x.val, x.slot)));
        match self.term {
            Term::Fold => {
                let k = self.red_kind;
                let x = q.fold(|| Tok::with_val(crate::tok::ID_DEFAULT, 0, 0), cl::red(k));
                r(Some(x))
            }
            Term::Sum => r(Some(q.sum())),
            Term::Min => r(q.min()),
            Term::Max => r(q.max()),
            Term::MinBy => r(q.min_by(cl::cmp())),
            Term::MaxBy => r(q.max_by(cl::cmp())),
            Term::MinByKey => r(q.min_by_key(cl::key())),
            Term::MaxByKey => r(q.max_by_key(cl::key())),
            Term::MinTie => r(q.map(crate::tok::TieTok).min().map(|t| t.0)),
            Term::MaxTie => r(q.map(crate::tok::TieTok).max().map(|t| t.0)),
            Term::ZCollect => TermResult::Count(q.map(drop::<Tok>).collect().len()),
            Term::ZCollectVec => TermResult::Count(q.map(drop::<Tok>).collect_vec().len()),
            Term::ZCollectX => TermResult::Count(q.map(drop::<Tok>).collect_x().len()),
            Term::ZIntoSplit => TermResult::Count(q.map(drop::<Tok>).collect_into(SplitVec::<(), Doubling>::with_doubling_growth()).len()),
            Term::ZIntoVec => TermResult::Count(q.map(drop::<Tok>).collect_into(vec![(), ()]).len() - 2),
            Term::WCollect => TermResult::Ids(q.map(crate::tok::Wide::new).collect().iter().map(|w| w.0.id).collect()),
            Term::WCollectVec => TermResult::Ids(q.map(crate::tok::Wide::new).collect_vec().iter().map(|w| w.0.id).collect()),
            Term::WCollectX => TermResult::Ids(q.map(crate::tok::Wide::new).collect_x().iter().map(|w| w.0.id).collect()),
            Term::WIntoVec => TermResult::Ids(q.map(crate::tok::Wide::new).collect_into(Vec::new()).iter().map(|w| w.0.id).collect()),
            Term::HCollect => TermResult::Ids(q.map(crate::tok::Big::new).collect().iter().map(|w| w.0.id).collect()),
            Term::HCollectVec => TermResult::Ids(q.map(crate::tok::Big::new).collect_vec().iter().map(|w| w.0.id).collect()),
            Term::HCollectX => TermResult::Ids(q.map(crate::tok::Big::new).collect_x().iter().map(|w| w.0.id).collect()),
            _ => TermResult::NA,
        }
    }
}
