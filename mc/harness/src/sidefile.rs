//! The schedule about to run is written to a side file, so that a crash of the process (SIGSEGV, abort)
//! still yields a replayable artefact.

use hcore::case::Case;
use std::fs::File;
use std::io::{Seek, SeekFrom, Write};
use std::sync::Mutex;

static FILE: Mutex<Option<File>> = Mutex::new(None);
static IDX: std::sync::atomic::AtomicUsize = std::sync::atomic::AtomicUsize::new(0);

pub fn set_idx(i: usize) {
    IDX.store(i, std::sync::atomic::Ordering::SeqCst);
}

pub fn open(path: &str) {
    if let Ok(f) = File::create(path) {
        *FILE.lock().unwrap() = Some(f);
    }
}

pub fn note(prop: &str, case: &Case, prefix: &[u8]) {
    let mut g = FILE.lock().unwrap_or_else(|e| e.into_inner());
    if let Some(f) = g.as_mut() {
        let s = format!("{}\n{}\n{}\n{}\n", prop, case.encode(), crate::runner::schedule_str(prefix), IDX.load(std::sync::atomic::Ordering::SeqCst));
        let _ = f.seek(SeekFrom::Start(0));
        let _ = f.write_all(s.as_bytes());
        let _ = f.set_len(s.len() as u64);
    }
}
