//! Runs one work item = (case, exploration plan, checks): enumerates every schedule of the plan on the
//! real code and judges each execution.

use crate::dispatch;
use crate::json::{arr, esc, Obj};
use crate::oracle::{self, Ctx, Viol};
use hcore::case::{run_case, Case, Obs};
use sched::explore::{explore, Next, Plan};
use sched::{ExecRecord, Fatal, OpKind, Order, Stats};
use std::collections::{BTreeMap, HashSet};
use std::sync::Mutex;

pub const CK_RESULT: u32 = 1;
pub const CK_CALLS: u32 = 2;
pub const CK_CALLSEQ: u32 = 4;
pub const CK_SOURCE: u32 = 8;
pub const CK_DROPS: u32 = 16;
pub const CK_THREADS: u32 = 32;
pub const CK_EXACT: u32 = 64;
pub const CK_EARLY: u32 = 128;
pub const CK_PANIC: u32 = 256;
pub const CK_PARAMS: u32 = 512;
pub const CK_LAZY: u32 = 1024;
pub const CK_VS_SEQ: u32 = 2048;
pub const CK_FN_SWEEP: u32 = 4096;
/// double / garbage drops only (leaks are not judged)
pub const CK_BADDROP: u32 = 8192;

#[derive(Clone, Debug)]
pub struct Item {
    pub case: Case,
    pub plan: Plan,
    pub checks: u32,
}

pub fn plan_to_str(p: &Plan) -> String {
    format!(
        "{}:{}:{}:{}:{}:{}:{}:{}",
        match p.order {
            Order::Pb => "pb",
            Order::Db => "db",
        },
        p.bound.map(|b| b.to_string()).unwrap_or_else(|| "full".into()),
        p.fair_k,
        p.horizon,
        p.max_execs,
        p.single as u8,
        p.slow0,
        p.prune as u8
    )
}

pub fn plan_from_str(s: &str) -> Plan {
    let f: Vec<&str> = s.split(':').collect();
    Plan {
        order: if f[0] == "db" { Order::Db } else { Order::Pb },
        bound: if f[1] == "full" { None } else { Some(f[1].parse().unwrap()) },
        fair_k: f[2].parse().unwrap(),
        horizon: f[3].parse().unwrap(),
        max_execs: f[4].parse().unwrap(),
        single: f.get(5).map(|x| *x == "1").unwrap_or(false),
        slow0: f.get(6).map(|x| x.parse().unwrap()).unwrap_or(1),
        prune: f.get(7).map(|x| *x == "1").unwrap_or(false),
    }
}

pub fn judge(item: &Item, obs: &Obs, seq: Option<&Result<hcore::visit::TermResult, String>>) -> Vec<Viol> {
    let cx = Ctx::new(&item.case, obs);
    let ck = item.checks;
    let mut vs = Vec::new();
    if let (Err(msg), None) = (&obs.result, item.case.fault) {
        // collects of zero-sized items are keyed by builder type and terminal (known finding F9 lists two sites)
        let key = if item.case.src == hcore::case::Src::PRangeMax {
            // the range 1..usize::MAX as a source has its own key (known finding F10)
            "panic:range-end-usize-max".to_string()
        } else if item.case.term.is_zst() { format!("zst-panic:{}.{}:{}", hcore::chaintab::INFO[item.case.chain].0, item.case.term.name(), if item.case.src.known_len(item.case.known) { "known-len" } else { "unknown-len" }) } else { "panic".to_string() };
        vs.push(Viol { key, what: format!("terminal panicked without an injected fault: {}", msg) });
        return vs;
    }
    if matches!(obs.result, Ok(hcore::visit::TermResult::NA)) {
        // the terminal does not exist for this (source, chain): nothing was run
        return vs;
    }
    if ck & CK_RESULT != 0 {
        vs.extend(oracle::chk_result(&cx));
    }
    if ck & (CK_RESULT | CK_SOURCE | CK_VS_SEQ | CK_DROPS) != 0 {
        vs.extend(oracle::chk_pulls(&cx));
    }
    if ck & (CK_CALLS | CK_CALLSEQ) != 0 {
        vs.extend(oracle::chk_calls(&cx, ck & CK_CALLSEQ != 0));
    }
    if ck & CK_SOURCE != 0 {
        vs.extend(oracle::chk_source(&cx));
    }
    if ck & CK_DROPS != 0 {
        vs.extend(oracle::chk_drops(&cx, false));
    } else if ck & CK_BADDROP != 0 {
        vs.extend(oracle::chk_drops(&cx, true));
    }
    if ck & CK_THREADS != 0 {
        vs.extend(oracle::chk_threads(&cx));
    }
    if ck & CK_EXACT != 0 {
        vs.extend(oracle::chk_exact(&cx));
    }
    if ck & CK_EARLY != 0 {
        vs.extend(oracle::chk_early_exit(&cx, item.plan.fair_k));
    }
    if ck & CK_PANIC != 0 {
        vs.extend(oracle::chk_panic(&cx));
    }
    if ck & CK_PARAMS != 0 {
        let st = hcore::settings::Settings::new(item.case.nt, item.case.cs);
        vs.extend(oracle::chk_params(&cx, &st));
    }
    if ck & CK_LAZY != 0 {
        vs.extend(oracle::chk_lazy(&cx));
    }
    if let (true, Some(seq)) = (ck & CK_VS_SEQ != 0, seq) {
        vs.extend(oracle::chk_vs_seq(&cx, seq));
    }
    vs
}

pub fn fmt_log(rec: &ExecRecord) -> Vec<String> {
    rec.log
        .iter()
        .map(|e| {
            let res = if e.r0 == sched::UNSET { String::new() } else { format!(" -> ({},{})", e.r0, e.r1) };
            match e.kind {
                OpKind::Closure | OpKind::SrcNext => format!("t{} {}({},{:#x}){}", e.thread, e.kind.name(), e.a, e.b, res),
                _ => format!("t{} {}({},{}){}", e.thread, e.kind.name(), e.a, e.b, res),
            }
        })
        .collect()
}

pub fn schedule_str(ch: &[u8]) -> String {
    if ch.is_empty() {
        "-".to_string()
    } else {
        ch.iter().map(|c| c.to_string()).collect::<Vec<_>>().join(".")
    }
}

pub fn schedule_parse(s: &str) -> Vec<u8> {
    if s == "-" || s.is_empty() {
        vec![]
    } else {
        s.split('.').map(|x| x.parse().unwrap()).collect()
    }
}

#[derive(Clone, Debug)]
pub struct FoundViol {
    pub viol: Viol,
    pub schedule: Vec<u8>,
    pub result: String,
    pub log: Vec<String>,
    pub count: u64,
}

#[derive(Default)]
pub struct ItemResult {
    pub executions: u64,
    pub complete: bool,
    pub states: u64,
    pub edges: u64,
    pub steps: u64,
    pub max_threads: u32,
    pub max_decisions: u32,
    pub final_states: u64,
    /// distinct final states in which at least two threads processed elements / ran closures
    pub nontrivial: u64,
    /// distinct observed outcomes (result + who-did-what)
    pub outcomes: u64,
    pub violations: Vec<FoundViol>,
    pub sample: Option<(Vec<u8>, Vec<String>, String)>,
    pub tags: BTreeMap<String, u64>,
    pub wall_ms: u64,
}

/// the item currently being explored (for the fatal handler)
pub static CURRENT: Mutex<Option<(String, String, String)>> = Mutex::new(None);

pub fn fatal_handler(f: Fatal, rec: ExecRecord) -> ! {
    let cur = CURRENT.lock().unwrap_or_else(|e| e.into_inner()).clone().unwrap_or_default();
    let kind = match f {
        Fatal::Horizon => "nontermination: the execution exceeded the horizon of scheduling decisions (bounded-fair schedule)",
        Fatal::Deadlock => "deadlock/livelock: no thread is enabled but the computation has not finished",
    };
    let o = Obj::new()
        .s("type", "fatal")
        .s("prop", &cur.0)
        .s("case", &cur.1)
        .s("plan", &cur.2)
        .s("key", match f {
            // the range 1..usize::MAX as a source has its own key (known finding F10: the dependency's position counter wraps)
            Fatal::Horizon if cur.1.starts_with("src=prangemax;") => "nontermination:range-end-usize-max",
            Fatal::Horizon => "nontermination",
            _ => "deadlock",
        })
        .s("what", kind)
        .s("schedule", &schedule_str(&rec.choices()))
        .raw("log", &arr(&fmt_log(&rec).iter().rev().take(60).rev().map(|x| esc(x)).collect::<Vec<_>>()))
        .build();
    println!("{}", o);
    use std::io::Write;
    let _ = std::io::stdout().flush();
    std::process::exit(3);
}

fn active_threads(obs: &Obs) -> usize {
    let mut ts: HashSet<u16> = obs.calls.iter().map(|c| c.thread).collect();
    for e in &obs.rec.log {
        if e.kind == OpKind::Pull && e.r1 > 0 && e.r1 != sched::UNSET {
            ts.insert(e.thread);
        }
    }
    ts.len()
}

fn outcome_hash(obs: &Obs) -> u64 {
    let mut h = sched::hash64(0x77);
    let mut mixs = |s: &str| {
        for b in s.bytes() {
            h = sched::hash64(h ^ b as u64);
        }
    };
    mixs(&format!("{:?}", obs.result));
    let mut who: Vec<(u8, u64, u16)> = obs.calls.iter().map(|c| (c.stage, c.id, c.thread)).collect();
    who.sort();
    mixs(&format!("{:?}", who));
    h
}

/// wall-clock cap per item (seconds); 0 = none. Far above any item on the unchanged tree (reported as
/// `max_item_ms`); an item that hits it is reported as not exhaustive
pub static ITEM_TIME_CAP_S: std::sync::atomic::AtomicU64 = std::sync::atomic::AtomicU64::new(0);

pub fn run_item(prop: &str, item: &Item) -> ItemResult {
    let t_item = std::time::Instant::now();
    let time_cap = ITEM_TIME_CAP_S.load(std::sync::atomic::Ordering::Relaxed);
    let mut timed_out = false;
    let case = &item.case;
    let cfg = item.plan.config();
    let mut res = ItemResult::default();
    let mut stats = Stats::default();
    let mut nontrivial_states: HashSet<u64> = HashSet::new();
    let mut outcomes: HashSet<u64> = HashSet::new();
    let mut by_key: BTreeMap<String, usize> = BTreeMap::new();
    let case_h = {
        let mut h = 0u64;
        for b in case.encode().bytes() {
            h = sched::hash64(h ^ b as u64);
        }
        h
    };
    *CURRENT.lock().unwrap_or_else(|e| e.into_inner()) = Some((prop.to_string(), case.encode(), plan_to_str(&item.plan)));
    if item.checks & CK_FN_SWEEP != 0 {
        let (evals, vs) = oracle::fn_sweep();
        res.executions = evals;
        res.complete = true;
        res.states = 1;
        res.edges = 1;
        res.outcomes = 1;
        for vi in vs {
            res.violations.push(FoundViol { viol: vi, schedule: vec![], result: String::new(), log: vec![], count: 1 });
        }
        return res;
    }
    let seq_result = if item.checks & CK_VS_SEQ != 0 {
        let mut sc = case.clone();
        sc.nt = [hcore::settings::NtSet::N(1), hcore::settings::NtSet::Keep, hcore::settings::NtSet::Keep, hcore::settings::NtSet::Keep];
        crate::sidefile::note(prop, &sc, &[]);
        Some(run_case(&sc, &cfg, &[], dispatch::body).result)
    } else {
        None
    };
    let out = explore(&item.plan, &mut stats, |prefix| {
        crate::sidefile::note(prop, case, prefix);
        let obs = run_case(case, &cfg, prefix, dispatch::body);
        let vs = judge(item, &obs, seq_result.as_ref());
        if active_threads(&obs) >= 2 {
            nontrivial_states.insert(obs.rec.final_state);
        }
        outcomes.insert(outcome_hash(&obs));
        if res.sample.is_none() || (res.sample.as_ref().unwrap().0.is_empty() && active_threads(&obs) >= 2) {
            res.sample = Some((obs.rec.choices(), fmt_log(&obs.rec), format!("{:?}", obs.result)));
        }
        for vi in vs {
            if vi.key == "machinery" {
                sched::machinery_error(&vi.what);
            }
            match by_key.get(&vi.key) {
                Some(i) => res.violations[*i].count += 1,
                None => {
                    // determinism: the same schedule must fail every time. It is re-run (non-strict: a forced
                    // choice that no longer exists falls back to the default) up to 5 times. Identical
                    // observations twice = deterministic. If the observations differ, the subject itself behaves
                    // non-deterministically under a fixed schedule (undefined behaviour: reads of moved-out or
                    // uninitialised memory): that is reported as a violation only if the re-runs violate the
                    // property again, otherwise it is a machinery error.
                    let sch = obs.rec.choices();
                    let mut cfg2 = cfg.clone();
                    cfg2.strict = false;
                    let (mut identical, mut violating) = (0, 0);
                    for _ in 0..5 {
                        let o2 = run_case(case, &cfg2, &sch, dispatch::body);
                        let same = !o2.rec.diverged && o2.rec.log == obs.rec.log && format!("{:?}", o2.result) == format!("{:?}", obs.result);
                        if same {
                            identical += 1;
                        }
                        if !judge(item, &o2, seq_result.as_ref()).is_empty() {
                            violating += 1;
                        }
                        if identical >= 2 {
                            break;
                        }
                    }
                    let mut vi = vi;
                    if identical < 2 {
                        if violating < 2 {
                            sched::machinery_error(&format!("non-deterministic replay of schedule {} for case {}", schedule_str(&sch), case.encode()));
                        }
                        vi.what = format!("{} [the execution is not reproducible in its details under the same schedule ({} of 5 re-runs violated the property again): undefined behaviour suspected]", vi.what, violating);
                    }
                    by_key.insert(vi.key.clone(), res.violations.len());
                    res.violations.push(FoundViol { viol: vi, schedule: sch, result: format!("{:?}", obs.result), log: fmt_log(&obs.rec), count: 1 });
                }
            }
        }
        // an item is abandoned at its first violating execution: the verdict is in, and a changed tree can make
        // the rest of the item arbitrarily expensive (e.g. surplus workers)
        let mut next = if res.violations.is_empty() { Next::Continue } else { Next::Stop };
        // (a single-schedule item is complete after its one execution, however long that took)
        if time_cap > 0 && !item.plan.single && t_item.elapsed().as_secs() >= time_cap {
            timed_out = true;
            next = Next::Stop;
        }
        (obs.rec, next)
    });
    let _ = case_h;
    res.executions = out.executions;
    res.complete = (out.complete || out.stopped) && !timed_out;
    res.wall_ms = t_item.elapsed().as_millis() as u64;
    res.states = stats.states.len() as u64;
    res.edges = stats.edges.len() as u64;
    res.steps = stats.steps;
    res.max_threads = stats.max_threads;
    res.max_decisions = stats.max_decisions;
    res.final_states = stats.final_states.len() as u64;
    res.nontrivial = nontrivial_states.len() as u64;
    res.outcomes = outcomes.len() as u64;
    res
}

pub fn result_json(prop: &str, idx: usize, item: &Item, r: &ItemResult) -> String {
    let viols: Vec<String> = r
        .violations
        .iter()
        .map(|f| {
            Obj::new()
                .s("key", &f.viol.key)
                .s("what", &f.viol.what)
                .s("schedule", &schedule_str(&f.schedule))
                .s("result", &f.result)
                .n("count", f.count)
                .raw("log", &arr(&f.log.iter().map(|x| esc(x)).collect::<Vec<_>>()))
                .build()
        })
        .collect();
    let mut o = Obj::new()
        .s("type", "item")
        .s("prop", prop)
        .n("idx", idx as u64)
        .s("case", &item.case.encode())
        .s("plan", &plan_to_str(&item.plan))
        .s("plan_name", &item.plan.name())
        .n("checks", item.checks as u64)
        .n("executions", r.executions)
        .b("complete", r.complete)
        .n("states", r.states)
        .n("edges", r.edges)
        .n("steps", r.steps)
        .n("max_threads", r.max_threads as u64)
        .n("max_decisions", r.max_decisions as u64)
        .n("final_states", r.final_states)
        .n("nontrivial", r.nontrivial)
        .n("outcomes", r.outcomes)
        .raw("violations", &arr(&viols));
    if let Some((sch, log, result)) = &r.sample {
        o = o.raw(
            "sample",
            &Obj::new().s("schedule", &schedule_str(sch)).s("result", result).raw("log", &arr(&log.iter().take(80).map(|x| esc(x)).collect::<Vec<_>>())).build(),
        );
    }
    o.build()
}

/// Aggregate over the items of one batch (one child process).
#[derive(Default)]
pub struct Agg {
    pub items: u64,
    pub executions: u64,
    pub states: u64,
    pub edges: u64,
    pub steps: u64,
    pub final_states: u64,
    pub nontrivial: u64,
    pub outcomes: u64,
    pub items_multi_outcome: u64,
    pub max_threads: u32,
    pub max_decisions: u32,
    pub max_item_ms: u64,
    pub max_item_execs: u64,
    pub incomplete: Vec<String>,
    pub by_plan: BTreeMap<String, (u64, u64, u64)>,
    pub lines: Vec<String>,
    pub samples: Vec<String>,
}

impl Agg {
    pub fn absorb(&mut self, prop: &str, idx: usize, item: &Item, r: &ItemResult) {
        self.items += 1;
        self.executions += r.executions;
        self.states += r.states;
        self.edges += r.edges;
        self.steps += r.steps;
        self.final_states += r.final_states;
        self.nontrivial += r.nontrivial;
        self.outcomes += r.outcomes;
        if r.outcomes > 1 {
            self.items_multi_outcome += 1;
        }
        self.max_threads = self.max_threads.max(r.max_threads);
        self.max_decisions = self.max_decisions.max(r.max_decisions);
        self.max_item_ms = self.max_item_ms.max(r.wall_ms);
        self.max_item_execs = self.max_item_execs.max(r.executions);
        let e = self.by_plan.entry(item.plan.name()).or_insert((0, 0, 0));
        e.0 += 1;
        e.1 += r.executions;
        if r.complete {
            e.2 += 1;
        } else {
            self.incomplete.push(format!("{} {} stopped after {} executions / {} ms (caps: {} executions, wall clock)", item.case.encode(), item.plan.name(), r.executions, r.wall_ms, item.plan.max_execs));
        }
        if !r.violations.is_empty() {
            self.lines.push(result_json(prop, idx, item, r));
        }
        let want_sample = self.samples.len() < 2 && (r.nontrivial > 0 || self.samples.is_empty());
        if want_sample && r.violations.is_empty() {
            self.samples.push(result_json(prop, idx, item, r));
        }
    }

    pub fn to_json(&self, prop: &str) -> String {
        let plans: Vec<String> = self
            .by_plan
            .iter()
            .map(|(k, v)| Obj::new().s("plan", k).n("items", v.0).n("executions", v.1).n("complete_items", v.2).build())
            .collect();
        Obj::new()
            .s("type", "batch")
            .s("prop", prop)
            .n("items", self.items)
            .n("executions", self.executions)
            .n("states", self.states)
            .n("edges", self.edges)
            .n("steps", self.steps)
            .n("final_states", self.final_states)
            .n("nontrivial", self.nontrivial)
            .n("outcomes", self.outcomes)
            .n("items_multi_outcome", self.items_multi_outcome)
            .n("max_threads", self.max_threads as u64)
            .n("max_decisions", self.max_decisions as u64)
            .n("max_item_ms", self.max_item_ms)
            .n("max_item_execs", self.max_item_execs)
            .raw("incomplete", &arr(&self.incomplete.iter().map(|x| esc(x)).collect::<Vec<_>>()))
            .raw("plans", &arr(&plans))
            .raw("violating_items", &arr(&self.lines))
            .raw("samples", &arr(&self.samples))
            .build()
    }
}
