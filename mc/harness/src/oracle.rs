//! Oracles: every check compares one observed execution of the real code with the reference model
//! (`hcore::model`, the chain interpreted sequentially) or with an invariant over the event log.

use hcore::case::{Case, ItemKind, Obs};
use hcore::chaintab as chains;
use hcore::closures::{pred_accepts, Call, ST_FOREACH, ST_KEY, ST_PRED, ST_RED};
use hcore::model::{self, Elem, Full};
use hcore::tok::{mixv, red_vals, ID_DEFAULT, PREFIX_BASE, RED_SUBCAT};
use hcore::visit::{Term, TermResult};
use orx_parallel::{ChunkSize, NumThreads};
use sched::OpKind;
use std::collections::{BTreeMap, BTreeSet};

#[derive(Clone, Debug, PartialEq, Eq)]
pub struct Viol {
    /// stable identity of the failure (call site / input identity), used to match known findings
    pub key: String,
    pub what: String,
}

fn v(key: &str, what: String) -> Viol {
    Viol { key: key.to_string(), what }
}

pub struct Ctx<'a> {
    pub case: &'a Case,
    pub obs: &'a Obs,
    pub m: Full,
    pub seq: bool,
}

impl<'a> Ctx<'a> {
    pub fn new(case: &'a Case, obs: &'a Obs) -> Self {
        // inputs of millions of elements run without call logging and are judged on the pull log only
        let m = if case.quiet { Full::default() } else { model::full(&case.kinds(), &obs.eff_input) };
        let seq = case.final_params().is_sequential();
        Ctx { case, obs, m, seq }
    }
}

fn val_of(kind: ItemKind, e: &Elem) -> u64 {
    match kind {
        ItemKind::Usize => e.id,
        _ => mixv(e.id),
    }
}

/// item kind of the chain's output: owned tokens as soon as one mapping stage exists
fn out_kind(case: &Case) -> ItemKind {
    let only_filters = case.kinds().iter().all(|k| *k == model::Kind::F);
    if only_filters {
        case.src.item_kind()
    } else {
        ItemKind::Owned
    }
}

fn multiset(ids: impl Iterator<Item = u64>) -> BTreeMap<u64, u32> {
    let mut m = BTreeMap::new();
    for i in ids {
        *m.entry(i).or_insert(0) += 1;
    }
    m
}

fn pred_ok(e: &Elem) -> bool {
    pred_accepts(e.id, e.slot)
}

/// Terminal result vs. the sequential reference (C01, C02, C03, C04, C06, C07, C09, C15).
pub fn chk_result(cx: &Ctx) -> Vec<Viol> {
    let case = cx.case;
    let out = &cx.m.out;
    let mut vs = Vec::new();
    let res = match &cx.obs.result {
        Err(msg) => {
            if case.fault.is_none() {
                vs.push(v("panic", format!("terminal panicked without an injected fault: {}", msg)));
            }
            return vs;
        }
        Ok(r) => r,
    };
    let ok = case.term;
    match (ok, res) {
        (_, TermResult::NA) => {}
        (t, TermResult::Ids(got)) if t.is_collect_ordered() => {
            let mut exp: Vec<u64> = (0..case.prefix as u64).map(|i| PREFIX_BASE + i).collect();
            exp.extend(out.iter().map(|e| e.id));
            if *got != exp {
                let key = if t.is_collect_into() && case.prefix > 0 && got.len() >= out.len() && got[..] == exp[case.prefix..] {
                    "collect_into-drops-existing"
                } else {
                    "ordered-collect"
                };
                vs.push(v(key, format!("{} returned {:x?}, sequential chain yields {:x?}", t.name(), got, exp)));
            }
        }
        (Term::CollectX | Term::WCollectX | Term::HCollectX, TermResult::Ids(got)) => {
            let a = multiset(got.iter().copied());
            let b = multiset(out.iter().map(|e| e.id));
            if a != b {
                vs.push(v("collect_x", format!("collect_x multiset {:x?} != sequential {:x?}", got, out.iter().map(|e| e.id).collect::<Vec<_>>())));
            } else if cx.seq && *got != out.iter().map(|e| e.id).collect::<Vec<_>>() {
                // order is unspecified: never an alarm
            }
        }
        (t, TermResult::Count(n)) if t.is_zst() => {
            if *n != out.len() {
                vs.push(v("zst-collect", format!("{} of a zero-sized item type returned {} elements, the sequential chain yields {}", t.name(), n, out.len())));
            }
        }
        (Term::Count, TermResult::Count(n)) if case.src == hcore::case::Src::PRangeBig => {
            let want = (1usize << case.spare) + 9;
            if *n != want {
                vs.push(v("count", format!("count of the range 1..2^{}+10 returned {}, it has {} elements", case.spare, n, want)));
            }
        }
        (Term::Count, TermResult::Count(n)) => {
            if *n != out.len() {
                vs.push(v("count", format!("count returned {}, sequential chain yields {} elements", n, out.len())));
            }
        }
        (Term::ForEach, TermResult::Unit) => {
            let a = multiset(cx.obs.calls.iter().filter(|c| c.stage == ST_FOREACH).map(|c| c.id));
            let b = multiset(out.iter().map(|e| e.id));
            if a != b {
                vs.push(v("for_each", format!("for_each visited {:x?}, sequential chain yields {:x?}", a, b)));
            }
        }
        (Term::Find | Term::FindIdx | Term::First | Term::FirstIdx, TermResult::Found(got)) => {
            let with_pred = matches!(ok, Term::Find | Term::FindIdx);
            let exp = out.iter().find(|e| !with_pred || pred_ok(e));
            match (got, exp) {
                (None, None) => {}
                (Some((gi, gid)), Some(e)) => {
                    if *gid != e.id {
                        vs.push(v("find-not-first", format!("{} returned {:#x}, the first match in source order is {:#x}", ok.name(), gid, e.id)));
                    } else if let Some(i) = gi {
                        // with eager stages the index refers to the materialised intermediate, not to the source
                        if chains::INFO[case.chain].2 == 0 && *i != e.src_pos {
                            vs.push(v("find-index", format!("{} reported index {}, the element's source position is {}", ok.name(), i, e.src_pos)));
                        }
                    }
                }
                (g, e) => vs.push(v("find-presence", format!("{} returned {:x?}, sequential answer is {:x?}", ok.name(), g, e.map(|e| e.id)))),
            }
        }
        (Term::Any, TermResult::Bool(b)) => {
            let exp = out.iter().any(pred_ok);
            if *b != exp {
                vs.push(v("any", format!("any returned {}, sequential answer is {}", b, exp)));
            }
        }
        (Term::All, TermResult::Bool(b)) => {
            let exp = out.iter().all(pred_ok);
            if *b != exp {
                vs.push(v("all", format!("all returned {}, sequential answer is {}", b, exp)));
            }
        }
        (Term::Reduce | Term::Fold | Term::Sum, TermResult::Red(got)) => {
            let kind = out_kind(case);
            let vals: Vec<u64> = out.iter().map(|e| val_of(kind, e)).collect();
            let rk = if ok == Term::Sum { 0 } else { case.red_kind };
            let exp: Option<u64> = match kind {
                ItemKind::Ref => match rk {
                    2 | 1 => vals.iter().copied().min(),
                    RED_SUBCAT => vals.last().copied(),
                    _ => vals.iter().copied().max(),
                },
                _ => {
                    let mut it = vals.iter().copied();
                    it.next().map(|first| it.fold(first, |a, b| red_vals(a, b, rk)))
                }
            };
            if rk == RED_SUBCAT && !cx.seq {
                return vs; // order-sensitive operator: only defined for sequential mode
            }
            let exp_full: Option<u64> = match ok {
                Term::Reduce => exp,
                _ => Some(exp.unwrap_or(0)),
            };
            let gotv = got.map(|g| g.1);
            if gotv != exp_full {
                vs.push(v("reduce", format!("{} returned val {:x?}, sequential fold gives {:x?} over {} survivors", ok.name(), gotv, exp_full, vals.len())));
            }
            if ok != Term::Reduce && exp.is_none() {
                if let Some(g) = got {
                    if g.0 != ID_DEFAULT {
                        vs.push(v("reduce-identity", format!("{} on an empty pipeline returned id {:#x}, not the identity/default", ok.name(), g.0)));
                    }
                }
            }
        }
        (Term::Min | Term::Max, TermResult::Red(got)) => {
            let exp = if ok == Term::Min { out.iter().map(|e| e.id).min() } else { out.iter().map(|e| e.id).max() };
            if got.map(|g| g.0) != exp {
                vs.push(v("minmax", format!("{} returned {:x?}, sequential answer {:x?}", ok.name(), got.map(|g| g.0), exp)));
            }
        }
        (Term::MinBy | Term::MaxBy | Term::MinByKey | Term::MaxByKey | Term::MinTie | Term::MaxTie, TermResult::Red(got)) => {
            let keys = out.iter().map(|e| e.slot / 2);
            let ek = if matches!(ok, Term::MinBy | Term::MinByKey | Term::MinTie) { keys.min() } else { keys.max() };
            // min() / max() in sequential mode are exactly Iterator::min / Iterator::max: the first minimal, the last
            // maximal element (the by-key wrappers are judged with C03's wording in every mode)
            if let (true, Some(k), Term::MinTie | Term::MaxTie) = (cx.seq, ek, ok) {
                let mut ext = out.iter().filter(|e| e.slot / 2 == k).map(|e| e.id);
                let want = if ok == Term::MinTie { ext.next() } else { ext.last() };
                if got.map(|g| g.0) != want {
                    vs.push(v("minmax-tie", format!("{} in sequential mode returned {:x?}; Iterator::{} returns {:x?} ({} of the equal elements)", ok.name(), got.map(|g| g.0), if ok == Term::MinTie { "min" } else { "max" }, want, if ok == Term::MinTie { "the first" } else { "the last" })));
                }
            }
            match (got, ek) {
                (None, None) => {}
                (Some(g), Some(k)) => {
                    let extremal: BTreeSet<u64> = out.iter().filter(|e| e.slot / 2 == k).map(|e| e.id).collect();
                    if !extremal.contains(&g.0) {
                        vs.push(v("by-key", format!("{} returned {:#x} which is not one of the extremal elements {:x?}", ok.name(), g.0, extremal)));
                    }
                }
                (g, k) => vs.push(v("by-key", format!("{} returned {:x?} but extremal key is {:?}", ok.name(), g.map(|g| g.0), k))),
            }
        }
        (Term::Build, _) => {}
        (t, r) => vs.push(v("machinery", format!("MACHINERY: terminal {} produced unexpected result shape {:?}", t.name(), r))),
    }
    vs
}

/// Wrapped sources: every source position is handed out at most once and lies inside the source
/// (deterministic evidence for "elements handed out twice", whatever the duplicated reads produce).
pub fn chk_pulls(cx: &Ctx) -> Vec<Viol> {
    let mut vs = Vec::new();
    if !cx.case.src.wrapped() || cx.case.endless {
        return vs;
    }
    let n = if cx.obs.eff_input.is_empty() { cx.case.input.len() as i64 } else { cx.obs.eff_input.len() as i64 };
    let mut ranges: Vec<(i64, i64, u16)> = Vec::new();
    let mut total = 0i64;
    for e in &cx.obs.rec.log {
        if e.kind == OpKind::Pull && e.r1 > 0 && e.r1 != sched::UNSET {
            total += e.r1;
            if e.r0 >= 0 {
                ranges.push((e.r0, e.r0 + e.r1, e.thread));
            }
        }
    }
    // eager stages pull from a materialised intermediate whose length is not the source's: only one-pass pipelines
    if chains::INFO[cx.case.chain].2 == 0 && total > n {
        vs.push(v("source-position-twice", format!("the pulls of this run obtained {} elements from a source of {}: elements handed out twice", total, n)));
        return vs;
    }
    if chains::INFO[cx.case.chain].2 != 0 {
        return vs;
    }
    ranges.sort();
    for w in ranges.windows(2) {
        if w[1].0 < w[0].1 {
            vs.push(v(
                "source-position-twice",
                format!("source positions {}..{} were handed to thread {} and positions {}..{} to thread {}: elements handed out twice", w[0].0, w[0].1, w[0].2, w[1].0, w[1].1, w[1].2),
            ));
            break;
        }
    }
    if let Some(r) = ranges.iter().find(|r| r.1 > n) {
        vs.push(v("source-position-twice", format!("a pull obtained positions {}..{} of a source of length {}", r.0, r.1, n)));
    }
    vs
}

fn stage_multiset(calls: &[Call], stages: std::ops::Range<u8>) -> BTreeMap<(u8, u64), u32> {
    let mut m = BTreeMap::new();
    for c in calls {
        if stages.contains(&c.stage) {
            *m.entry((c.stage, c.id)).or_insert(0) += 1;
        }
    }
    m
}

/// Closure calls (C05): full-visit terminals == sequential multiset; short-circuit terminals: sub-multiset.
/// In sequential mode additionally the per-stage *sequences* (C09).
pub fn chk_calls(cx: &Ctx, sequences: bool) -> Vec<Viol> {
    let mut vs = Vec::new();
    if cx.obs.result.is_err() || cx.case.term == Term::Build {
        return vs;
    }
    let got = stage_multiset(&cx.obs.calls, 0..3);
    let exp = stage_multiset(&cx.m.calls, 0..3);
    if cx.case.term.is_short_circuit() {
        for (k, n) in &got {
            let e = exp.get(k).copied().unwrap_or(0);
            if *n > e {
                vs.push(v("calls-more-than-once", format!("stage {} closure called {}x on argument {:#x}; the sequential chain calls it {}x", k.0, n, k.1, e)));
            }
        }
        // predicate: at most once per produced element
        if cx.case.term.uses_pred() {
            let gp = stage_multiset(&cx.obs.calls, ST_PRED..ST_PRED + 1);
            let ep = multiset(cx.m.out.iter().map(|e| e.id));
            for (k, n) in &gp {
                let e = ep.get(&k.1).copied().unwrap_or(0);
                if *n > e {
                    vs.push(v("pred-more-than-once", format!("predicate called {}x on {:#x}; the element occurs {}x", n, k.1, e)));
                }
            }
        }
    } else if got != exp {
        let mut diff = Vec::new();
        for k in got.keys().chain(exp.keys()).collect::<BTreeSet<_>>() {
            let (a, b) = (got.get(k).copied().unwrap_or(0), exp.get(k).copied().unwrap_or(0));
            if a != b {
                diff.push(format!("stage {} arg {:#x}: {}x (sequential {}x)", k.0, k.1, a, b));
            }
        }
        vs.push(v("calls-multiset", format!("closure calls differ from the sequential chain: {}", diff.join("; "))));
    }
    // the reduce operator combines n survivors with exactly n-1 calls (any tree shape), in every mode
    if matches!(cx.case.term, Term::Reduce | Term::Fold) {
        let n_calls = cx.obs.calls.iter().filter(|c| c.stage == ST_RED).count();
        let exp_calls = cx.m.out.len().saturating_sub(1);
        if n_calls != exp_calls {
            vs.push(v("reduce-op-count", format!("the reduce operator was called {} times for {} surviving elements (expected {})", n_calls, cx.m.out.len(), exp_calls)));
        }
    }
    if sequences && cx.seq {
        for st in 0..3u8 {
            let a: Vec<u64> = cx.obs.calls.iter().filter(|c| c.stage == st).map(|c| c.id).collect();
            let b: Vec<u64> = if cx.case.term.is_short_circuit() {
                seq_short_circuit_calls(cx).iter().filter(|c| c.stage == st).map(|c| c.id).collect()
            } else {
                cx.m.calls.iter().filter(|c| c.stage == st).map(|c| c.id).collect()
            };
            // eager (materialising) transformations evaluate the upstream part completely: compare as a
            // sequence only for one-pass pipelines; otherwise the order within a stage must still be source order
            let one_pass = chains::INFO[cx.case.chain].2 == 0;
            let okk = if one_pass || !cx.case.term.is_short_circuit() { a == b } else { is_prefix_or_full(&a, cx, st) };
            if !okk {
                vs.push(v("seq-order", format!("sequential mode: stage {} saw {:x?}, std iterator chain feeds it {:x?}", st, a, b)));
            }
        }
    }
    vs
}

fn is_prefix_or_full(a: &[u64], cx: &Ctx, st: u8) -> bool {
    let full: Vec<u64> = cx.m.calls.iter().filter(|c| c.stage == st).map(|c| c.id).collect();
    full.starts_with(a)
}

/// the closure calls a lazy sequential short-circuit terminal makes (stops at the first match)
pub fn seq_short_circuit_calls(cx: &Ctx) -> Vec<Call> {
    let with_pred = cx.case.term.uses_pred();
    let negate = cx.case.term == Term::All;
    let (calls, _) = model::find(&cx.case.kinds(), &cx.obs.eff_input, &mut |e, calls| {
        if with_pred {
            calls.push(Call { stage: ST_PRED, id: e.id, thread: 0 });
            pred_ok(&e) != negate
        } else {
            true
        }
    });
    calls
}

/// By-value source (C05): advanced by one thread at a time; every yielded element fed exactly once.
pub fn chk_source(cx: &Ctx) -> Vec<Viol> {
    let mut vs = Vec::new();
    if cx.obs.max_inside > 1 {
        vs.push(v("source-reentered", format!("{} threads were inside the source iterator's next() at the same time", cx.obs.max_inside)));
    }
    if cx.obs.src_log.is_empty() && cx.obs.eff_input.is_empty() {
        return vs;
    }
    if !matches!(cx.case.src, hcore::case::Src::SIter | hcore::case::Src::PIter) || cx.obs.result.is_err() {
        return vs;
    }
    // positions handed out: each once, in increasing order
    let pos: Vec<u32> = cx.obs.src_log.iter().map(|x| x.1).collect();
    let mut sorted = pos.clone();
    sorted.sort();
    sorted.dedup();
    if sorted.len() != pos.len() {
        vs.push(v("source-dup", format!("source positions yielded more than once: {:?}", pos)));
    }
    if cx.case.term == Term::Build {
        return vs;
    }
    let n = cx.obs.eff_input.len();
    let first_stage_ids = |calls: &[Call]| -> Option<BTreeMap<u64, u32>> {
        // the first closure of the pipeline sees every source element
        let st0: u8 = if !cx.case.kinds().is_empty() {
            0
        } else if cx.case.term.uses_pred() {
            ST_PRED
        } else if cx.case.term == Term::ForEach {
            ST_FOREACH
        } else {
            return None;
        };
        Some(multiset(calls.iter().filter(|c| c.stage == st0).map(|c| c.id)))
    };
    let yielded = multiset(pos.iter().map(|p| hcore::source::src_elem(&cx.case.input, *p as usize).0));
    if !cx.case.term.is_short_circuit() && !cx.case.endless {
        if sorted != (0..n as u32).collect::<Vec<_>>() {
            vs.push(v("source-not-exhausted", format!("a full-visit terminal consumed source positions {:?} of 0..{}", sorted, n)));
        }
        if let Some(fed) = first_stage_ids(&cx.obs.calls) {
            if fed != yielded {
                vs.push(v("source-fed", format!("elements yielded by the source {:x?} != elements fed to the first stage {:x?}", yielded, fed)));
            }
        }
    } else if let Some(fed) = first_stage_ids(&cx.obs.calls) {
        for (id, k) in &fed {
            if *k > yielded.get(id).copied().unwrap_or(0) {
                vs.push(v("source-fed", format!("element {:#x} fed to the first stage {}x but yielded {}x", id, k, yielded.get(id).copied().unwrap_or(0))));
            }
        }
    }
    vs
}

/// Drop table (C13): nothing live, nothing dropped twice, no garbage dropped.
pub fn chk_drops(cx: &Ctx, allow_leak: bool) -> Vec<Viol> {
    let d = &cx.obs.drops;
    let mut vs = Vec::new();
    if d.double_drop > 0 {
        vs.push(v("bad-drop", format!("{} value(s) dropped twice (or stale memory dropped as a value)", d.double_drop)));
    }
    if d.garbage_drop > 0 {
        vs.push(v("bad-drop", format!("{} drop(s) of never-initialised memory (canary / serial mismatch)", d.garbage_drop)));
    }
    if !allow_leak && d.live > 0 {
        vs.push(v("leak", format!("{} of {} values never dropped: ids {:x?}", d.live, d.created, d.live_ids)));
    }
    vs
}

/// NumThreads::Max(n) (C08): closures on at most n distinct threads and at most n concurrently;
/// Max(1): everything on the calling thread, nothing spawned.
pub fn chk_threads(cx: &Ctx) -> Vec<Viol> {
    let mut vs = Vec::new();
    let n = match cx.case.nt[0] {
        hcore::settings::NtSet::N(n) | hcore::settings::NtSet::Max(n) if n > 0 => n,
        _ => return vs,
    };
    // num_threads must not be changed later in the chain for this check
    if cx.case.nt[1..].iter().any(|x| *x != hcore::settings::NtSet::Keep) {
        return vs;
    }
    let mut by_stage: BTreeMap<u8, BTreeSet<u16>> = BTreeMap::new();
    for c in &cx.obs.calls {
        by_stage.entry(c.stage).or_default().insert(c.thread);
    }
    for (st, ts) in &by_stage {
        if ts.len() > n {
            // the reduce operator additionally runs on the caller for the final cross-thread combine
            let workers: BTreeSet<u16> = ts.iter().copied().filter(|t| *t != 0).collect();
            let key = if *st == ST_RED && workers.len() <= n && ts.contains(&0) && n > 1 && combine_on_caller_only_after_join(cx) {
                "reduce-combine-on-caller"
            } else if *st == ST_KEY && workers.len() <= n && ts.contains(&0) && n > 1 && combine_on_caller_only_after_join(cx) {
                "reduce-combine-on-caller"
            } else {
                "too-many-threads"
            };
            vs.push(v(key, format!("num_threads = Max({}) but the stage-{} closure ran on {} distinct threads {:?}", n, st, ts.len(), ts)));
        }
    }
    if cx.obs.rec.max_flagged as usize > n {
        vs.push(v("too-many-concurrent", format!("num_threads = Max({}) but {} threads were executing closures at the same time", n, cx.obs.rec.max_flagged)));
    }
    if n == 1 {
        if cx.obs.spawns > 0 {
            vs.push(v("seq-spawned", format!("num_threads = Max(1) but {} thread(s) were spawned", cx.obs.spawns)));
        }
        if let Some(c) = cx.obs.calls.iter().find(|c| c.thread != 0) {
            vs.push(v("seq-off-caller", format!("num_threads = Max(1) but the stage-{} closure ran on thread {}", c.stage, c.thread)));
        }
    }
    vs
}

/// true iff every reduce-operator / key call on thread 0 happens in the join / combine phase of a run
/// (after the caller started joining its workers), i.e. it is the cross-thread combine and nothing else
fn combine_on_caller_only_after_join(cx: &Ctx) -> bool {
    let mut joining = false;
    for e in &cx.obs.rec.log {
        match e.kind {
            OpKind::Join if e.thread == 0 => joining = true,
            // a new run (eager stage followed by the final run) starts with a read of the source length
            OpKind::Len if e.thread == 0 => joining = false,
            OpKind::Closure if e.thread == 0 && (e.a == ST_RED as i64 || e.a == ST_KEY as i64) => {
                if !joining {
                    return false;
                }
            }
            _ => {}
        }
    }
    true
}

/// ChunkSize::Exact(c) (C11): every non-empty pull obtains exactly c elements, except at most one,
/// which then ends at the end of the source.
pub fn chk_exact(cx: &Ctx) -> Vec<Viol> {
    let mut vs = Vec::new();
    let c = match cx.case.final_params().chunk_size {
        ChunkSize::Exact(c) => c.get(),
        _ => return vs,
    };
    if cx.seq || chains::INFO[cx.case.chain].2 != 0 || cx.case.cs[1..].iter().any(|x| *x != hcore::settings::CsSet::Keep) {
        return vs; // eager stages pull under the parameters set so far: judged by their own cases
    }
    let n = if cx.obs.eff_input.is_empty() { cx.case.input.len() as i64 } else { cx.obs.eff_input.len() as i64 };
    if cx.case.src.wrapped() {
        let mut short = Vec::new();
        for e in &cx.obs.rec.log {
            if e.kind == OpKind::Pull && e.r1 > 0 && e.r1 != sched::UNSET {
                if e.r1 > c as i64 {
                    vs.push(v("exact-chunk", format!("Exact({}): thread {} pulled {} elements at once", c, e.thread, e.r1)));
                } else if e.r1 < c as i64 {
                    short.push((e.thread, e.r0, e.r1));
                }
            }
        }
        if short.len() > 1 {
            vs.push(v("exact-chunk", format!("Exact({}): {} short pulls (thread, begin, n) = {:?}", c, short.len(), short)));
        } else if let Some((t, b, k)) = short.first() {
            if !cx.case.endless && *b >= 0 && b + k != n {
                vs.push(v("exact-chunk", format!("Exact({}): thread {} pulled only {} elements at {} although the source has {}", c, t, k, b, n)));
            }
        }
    }
    // ranges of up to 2^40 elements (never materialised): the predicate calls of a short-circuit terminal tell which
    // aligned block each worker was handed
    if cx.case.src == hcore::case::Src::PRangeBig && cx.obs.result.is_ok() {
        let mut owner: BTreeMap<u64, BTreeSet<u16>> = BTreeMap::new();
        for call in cx.obs.calls.iter().filter(|x| x.stage == ST_PRED) {
            owner.entry((call.id - 1) / c as u64).or_default().insert(call.thread);
        }
        for (blk, ts) in &owner {
            if ts.len() > 1 {
                vs.push(v("exact-block", format!("Exact({}): elements of block {} were handed to threads {:?}", c, blk, ts)));
            }
        }
    }
    // block -> thread map from the first closure of the chain (also for unwrapped sources)
    if !cx.case.term.is_short_circuit() && !cx.case.kinds().is_empty() && cx.obs.result.is_ok() {
        let mut owner: BTreeMap<usize, BTreeSet<u16>> = BTreeMap::new();
        let mut pos_of: BTreeMap<u64, Vec<usize>> = BTreeMap::new();
        for (p, (id, _)) in cx.obs.eff_input.iter().enumerate() {
            pos_of.entry(*id).or_default().push(p);
        }
        let dup = pos_of.values().any(|x| x.len() > 1);
        if !dup {
            for call in cx.obs.calls.iter().filter(|x| x.stage == 0) {
                if let Some(ps) = pos_of.get(&call.id) {
                    owner.entry(ps[0] / c).or_default().insert(call.thread);
                }
            }
            for (blk, ts) in &owner {
                if ts.len() > 1 {
                    vs.push(v("exact-block", format!("Exact({}): block {} (positions {}..{}) was processed by threads {:?}", c, blk, blk * c, (blk + 1) * c, ts)));
                }
            }
        }
    }
    // by-value sources (also unwrapped ones): bursts of next() calls of one thread between that thread's closure
    // calls = what one pull took from the source
    let by_value = matches!(cx.case.src, hcore::case::Src::SIter | hcore::case::Src::PIter | hcore::case::Src::PConIter | hcore::case::Src::PConIterPar);
    if by_value && !cx.case.kinds().is_empty() && !cx.case.term.is_short_circuit() && cx.obs.result.is_ok() && !cx.case.endless {
        let mut cur: BTreeMap<u16, Vec<i64>> = BTreeMap::new();
        let mut bursts: Vec<(u16, Vec<i64>)> = Vec::new();
        for e in &cx.obs.rec.log {
            match e.kind {
                OpKind::SrcNext if e.a < n => cur.entry(e.thread).or_default().push(e.a),
                OpKind::Closure | OpKind::End => {
                    if let Some(b) = cur.remove(&e.thread) {
                        if !b.is_empty() {
                            bursts.push((e.thread, b));
                        }
                    }
                }
                _ => {}
            }
        }
        let mut short = 0;
        for (t, b) in &bursts {
            if b.len() > c {
                vs.push(v("exact-burst", format!("Exact({}): thread {} advanced the source iterator {} times in one pull (positions {:?})", c, t, b.len(), b)));
            } else if b.len() < c {
                short += 1;
                if *b.last().unwrap() != n - 1 {
                    vs.push(v("exact-burst", format!("Exact({}): thread {} took only positions {:?} of a source of {} in one pull", c, t, b, n)));
                }
            }
        }
        if short > 1 {
            vs.push(v("exact-burst", format!("Exact({}): {} short pulls from the by-value source", c, short)));
        }
    }
    vs
}

/// Early exit (C10): the finder's next source operation after the matching evaluation is skip_to_end;
/// no pull that starts after a skip_to_end obtains elements.
pub fn chk_early_exit(cx: &Ctx, fair_k: u32) -> Vec<Viol> {
    let mut vs = Vec::new();
    // bounded waiting: once the match has been evaluated the finder is scheduled within K decisions and calls
    // skip_to_end, so at most K (+ one per thread already on its way) pulls can still succeed - whatever
    // the length of the source
    if fair_k > 0 && cx.case.src.wrapped() && !cx.seq && cx.case.term.uses_pred() && cx.obs.result.is_ok() {
        let after: u32 = pulls_after_first_match(cx).values().sum();
        let bound = fair_k + cx.obs.rec.n_threads as u32;
        if after > bound {
            vs.push(v("work-after-match", format!("{} pulls obtained elements after the first matching evaluation (bound {} under bounded waiting K={})", after, bound, fair_k)));
        }
    }
    if !cx.case.term.is_short_circuit() || cx.obs.result.is_err() {
        return vs;
    }
    // a flat_map expansion that never ends contains elements of every slot, hence a match: the search must end
    // (the harness' expansions give up after RUNAWAY_LIMIT children, so that "never returns" is observable)
    if cx.obs.exp_runaway {
        vs.push(v(
            "runaway-expansion",
            format!(
                "a flat_map expansion was advanced {} times although it holds a match among its first 64 elements: the search does not stop at the match",
                hcore::closures::RUNAWAY_LIMIT
            ),
        ));
    }
    let log = &cx.obs.rec.log;
    if cx.seq {
        // sequential clause, lazily produced expansions: no child beyond the first match comes into existence
        if cx.case.exp_mode > 0 && chains::INFO[cx.case.chain].2 == 0 {
            model::take_exp();
            let _ = seq_short_circuit_calls(cx);
            let want = model::take_exp();
            if cx.obs.exp_produced != want {
                vs.push(v(
                    "seq-expansion-beyond-match",
                    format!("sequential mode asked the flat_map expansions for {} children; a lazy std chain asks for {}", cx.obs.exp_produced, want),
                ));
            }
        }
        // sequential clause: nothing beyond the first match is evaluated (one-pass pipelines)
        if chains::INFO[cx.case.chain].2 == 0 {
            let exp = seq_short_circuit_calls(cx);
            let got: Vec<(u8, u64)> = cx.obs.calls.iter().filter(|c| c.stage < 3 || c.stage == ST_PRED).map(|c| (c.stage, c.id)).collect();
            let e: Vec<(u8, u64)> = exp.iter().map(|c| (c.stage, c.id)).collect();
            if got != e {
                vs.push(v("seq-eval-beyond-match", format!("sequential mode evaluated {:x?}; a lazy std chain evaluates {:x?}", got, e)));
            }
        }
        return vs;
    }
    if !cx.case.src.wrapped() {
        return vs;
    }
    let mut skipped = false;
    for e in log {
        match e.kind {
            OpKind::Skip => skipped = true,
            OpKind::Pull if skipped && e.r1 > 0 && e.r1 != sched::UNSET => {
                vs.push(v("pull-after-skip", format!("thread {} obtained {} element(s) by a pull that started after skip_to_end", e.thread, e.r1)));
            }
            _ => {}
        }
    }
    // a thread that returns a match must call skip_to_end before its next pull / its end
    let found_some = match &cx.obs.result {
        Ok(TermResult::Found(Some(_))) => true,
        Ok(TermResult::Bool(b)) => (cx.case.term == Term::Any && *b) || (cx.case.term == Term::All && !*b),
        _ => false,
    };
    if found_some && !log.iter().any(|e| e.kind == OpKind::Skip) && log.iter().any(|e| e.kind == OpKind::Begin) {
        vs.push(v("no-skip", "a match was found but no thread called skip_to_end".to_string()));
    }
    vs
}

/// Work after a match (C10): number of successful pulls that start after the first matching evaluation
/// completed, per thread.
pub fn pulls_after_first_match(cx: &Ctx) -> BTreeMap<u16, u32> {
    let mut r = BTreeMap::new();
    let with_pred = cx.case.term.uses_pred();
    let negate = cx.case.term == Term::All;
    let out_ids: BTreeSet<u64> = cx.m.out.iter().filter(|e| !with_pred || (pred_ok(e) != negate)).map(|e| e.id).collect();
    let mut matched = false;
    let last_stage: i64 = if with_pred { ST_PRED as i64 } else { cx.case.kinds().len() as i64 - 1 };
    for e in &cx.obs.rec.log {
        match e.kind {
            OpKind::Closure if !matched && e.a == last_stage => {
                // the matching evaluation: an element of the answer set reaches the last closure
                if with_pred && out_ids.contains(&(e.b as u64)) {
                    matched = true;
                }
            }
            OpKind::Pull if matched && e.r1 > 0 && e.r1 != sched::UNSET => *r.entry(e.thread).or_insert(0) += 1,
            _ => {}
        }
    }
    r
}

/// Panicking closure (C14): the terminal panics too; no double drop, no drop of uninitialised memory.
pub fn chk_panic(cx: &Ctx) -> Vec<Viol> {
    let mut vs = Vec::new();
    let (st, id) = match cx.case.fault {
        Some(f) => f,
        None => return vs,
    };
    let fired = cx.obs.calls.iter().any(|c| c.stage == st && (c.id == id || id == hcore::closures::ANY_ID || id == hcore::closures::ALL_ID));
    if fired && cx.obs.result.is_ok() {
        vs.push(v("panic-swallowed", format!("the stage-{} closure panicked on {:#x} but the terminal returned {:?}", st, id, cx.obs.result)));
    }
    if !fired && cx.obs.result.is_err() {
        vs.push(v("panic", format!("terminal panicked although the faulty closure call never happened: {:?}", cx.obs.result)));
    }
    vs.extend(chk_drops(cx, true));
    vs
}

/// Parameter propagation (C12): after every step params() == last values set (else Auto).
pub fn chk_params(cx: &Ctx, st: &hcore::settings::Settings) -> Vec<Viol> {
    let mut vs = Vec::new();
    let keys = chains::transition_keys(cx.case.chain);
    for p in &cx.obs.probes {
        let exp_after = st.expected_params(p.pos);
        let exp_before = if p.pos == 0 { orx_parallel::Params::default() } else { st.expected_params(p.pos - 1) };
        let site = if p.pos == 0 { "source".to_string() } else { keys[p.pos - 1].to_string() };
        if p.params_before != exp_before {
            vs.push(v(&format!("params-lost:{}", site), format!("after {} params() = {:?}, expected {:?}", site, p.params_before, exp_before)));
        }
        if p.params_after != exp_after {
            vs.push(v(&format!("params-set:{}", site), format!("after the setters at position {} params() = {:?}, expected {:?}", p.pos, p.params_after, exp_after)));
        }
        let seq_exp = exp_after.num_threads == NumThreads::Max(std::num::NonZeroUsize::new(1).unwrap());
        if p.params_after.is_sequential() != seq_exp {
            vs.push(v("is_sequential", format!("is_sequential() = {} for {:?}", p.params_after.is_sequential(), p.params_after)));
        }
    }
    vs
}

/// Laziness (C16): until the terminal call no closure ran, no source element was consumed, nothing was
/// spawned. Work is attributed to the transformation during which it became visible (probe deltas).
pub fn chk_lazy(cx: &Ctx) -> Vec<Viol> {
    let mut vs = Vec::new();
    let keys = chains::transition_keys(cx.case.chain);
    let mut prev: Option<&hcore::settings::Probe> = None;
    for p in &cx.obs.probes {
        let (c0, s0, w0, t0) = match prev {
            None => (0, 0, cx.obs.base_spawns, p.toks_created),
            Some(q) => q.after,
        };
        let (dc, ds, dw, dt) = (p.calls - c0, p.src_consumed - s0, p.spawned - w0, p.toks_created - t0);
        // the setters called at this position
        let (sc, ss, sw, stk) = (p.after.0 - p.calls, p.after.1 - p.src_consumed, p.after.2 - p.spawned, p.after.3 - p.toks_created);
        if sc > 0 || ss > 0 || sw > 0 || stk > 0 {
            let site = if p.pos == 0 { "source".to_string() } else { keys[p.pos - 1].to_string() };
            vs.push(v(&format!("setters-after:{}", site), format!("num_threads / chunk_size called after {} ran {} closure call(s), consumed {} element(s), spawned {} thread(s)", site, sc, ss, sw)));
        }
        if dc > 0 || ds > 0 || dw > 0 || dt > 0 {
            let site = if p.pos == 0 { "source" } else { keys[p.pos - 1] };
            vs.push(v(
                site,
                format!(
                    "{} ran work at construction: {} closure call(s), {} source element(s) consumed, {} thread(s) spawned, {} value(s) created before the terminal call",
                    site, dc, ds, dw, dt
                ),
            ));
        }
        prev = Some(p);
    }
    // all work of the terminal call runs under the parameters then in effect
    if let (true, Some(last)) = (cx.seq, cx.obs.probes.last()) {
        if cx.obs.spawns > last.spawned {
            vs.push(v("terminal-params", format!("the parameters in effect at the terminal are sequential but it spawned {} thread(s)", cx.obs.spawns - last.spawned)));
        }
        if let Some(c) = cx.obs.calls.iter().skip(last.calls as usize).find(|c| c.thread != cx.obs.caller) {
            vs.push(v("terminal-params", format!("the parameters in effect at the terminal are sequential but the stage-{} closure ran on thread {}", c.stage, c.thread)));
        }
    }
    vs
}

/// `num_threads(1)` result of the same case vs. this execution's result (C15).
pub fn chk_vs_seq(cx: &Ctx, seq: &Result<TermResult, String>) -> Vec<Viol> {
    let mut vs = Vec::new();
    match (&cx.obs.result, seq) {
        (Ok(a), Ok(b)) => {
            let same = match (a, b) {
                (TermResult::Ids(x), TermResult::Ids(y)) if matches!(cx.case.term, Term::CollectX | Term::WCollectX | Term::HCollectX) => multiset(x.iter().copied()) == multiset(y.iter().copied()),
                (TermResult::Red(x), TermResult::Red(y)) => x.map(|t| t.1) == y.map(|t| t.1),
                _ => a == b,
            };
            if !same {
                vs.push(v("differs-from-sequential", format!("result {:x?} differs from the num_threads(1) result {:x?}", a, b)));
            }
        }
        (Err(m), _) => vs.push(v("panic", format!("the terminal panicked: {}", m))),
        (_, Err(m)) => vs.push(v("panic", format!("the num_threads(1) run panicked: {}", m))),
    }
    vs
}

/// Exhaustive sweep of the parameter-resolution functions (C15, auxiliary): every result >= 1, no
/// arithmetic panic, Exact preserved, never more workers than max_num_threads.
pub fn fn_sweep() -> (u64, Vec<Viol>) {
    use orx_parallel::verif::internals as int;
    use orx_parallel::Params;
    use std::num::NonZeroUsize;
    use std::panic::catch_unwind;
    let mut evals = 0u64;
    let mut vs: Vec<Viol> = Vec::new();
    let mut push = |vs: &mut Vec<Viol>, key: &str, what: String| {
        if !vs.iter().any(|x| x.key == key) {
            vs.push(v(key, what));
        }
    };
    let lens: Vec<Option<usize>> = std::iter::once(None).chain((0..=40).map(Some)).chain([Some(1000), Some(1 << 22), Some(usize::MAX)]).collect();
    let xs: Vec<usize> = (1..=40).chain([64, 1 << 20, usize::MAX / 2, usize::MAX / 2 + 1, usize::MAX]).collect();
    let nz = |x: usize| NonZeroUsize::new(x).unwrap();
    for task in 0..3u8 {
        for len in &lens {
            for threads in 1..=9usize {
                let mut css = vec![ChunkSize::Auto];
                for x in &xs {
                    css.push(ChunkSize::Min(nz(*x)));
                    css.push(ChunkSize::Exact(nz(*x)));
                }
                for cs in css {
                    evals += 1;
                    let (l, c) = (*len, cs);
                    match catch_unwind(move || int::calc_chunk_size(task, l, threads, c)) {
                        Err(_) => push(&mut vs, &format!("fn:calc_chunk_size:{}", kind_name(cs)), format!("calc_chunk_size(task {}, len {:?}, threads {}, {:?}) panicked", task, len, threads, cs)),
                        Ok((exact, x)) => {
                            if x == 0 {
                                push(&mut vs, "fn:calc_chunk_size:zero", format!("calc_chunk_size(task {}, len {:?}, threads {}, {:?}) = 0", task, len, threads, cs));
                            }
                            if let ChunkSize::Exact(e) = cs {
                                // a request larger than a known input may be clamped to the input length: every pull
                                // that obtains elements then still obtains min(c, remaining) of them (C11 is judged on
                                // what pulls obtain, not on the size they request)
                                let floor = match len {
                                    Some(l) => e.get().min((*l).max(1)),
                                    None => e.get(),
                                };
                                if !exact || x > e.get() || x < floor {
                                    push(&mut vs, "fn:calc_chunk_size:exact", format!("calc_chunk_size(.., {:?}) = ({}, {})", cs, exact, x));
                                }
                            }
                        }
                    }
                }
            }
        }
    }
    for len in &lens {
        for avail in 1..=9usize {
            evals += 1;
            let l = *len;
            match catch_unwind(move || int::auto_num_threads(l, Some(avail))) {
                Err(_) => push(&mut vs, "fn:auto_num_threads", format!("auto_num_threads({:?}, {}) panicked", len, avail)),
                Ok(n) => {
                    if n > avail || (n == 0 && *len != Some(0)) {
                        push(&mut vs, "fn:auto_num_threads", format!("auto_num_threads({:?}, {}) = {}", len, avail, n));
                    }
                }
            }
            for n in 1..=9usize {
                evals += 1;
                match catch_unwind(move || int::set_num_threads(l, Some(avail), n)) {
                    Err(_) => push(&mut vs, "fn:set_num_threads", format!("set_num_threads({:?}, {}, {}) panicked", len, avail, n)),
                    Ok(r) => {
                        if r > n || r > avail || (r == 0 && *len != Some(0)) {
                            push(&mut vs, "fn:set_num_threads", format!("set_num_threads({:?}, {}, {}) = {}", len, avail, n, r));
                        }
                    }
                }
            }
        }
    }
    // the runner as the spawn loops build it
    for task in 0..3u8 {
        for len in (0..=24usize).map(Some).chain([None]) {
            for n in 1..=9usize {
                for cs in [ChunkSize::Auto, ChunkSize::Min(nz(1)), ChunkSize::Min(nz(3)), ChunkSize::Min(nz(64)), ChunkSize::Exact(nz(1)), ChunkSize::Exact(nz(2)), ChunkSize::Exact(nz(7))] {
                    let params = Params { num_threads: NumThreads::Max(nz(n)), chunk_size: cs };
                    evals += 1;
                    let probe = match catch_unwind(move || int::RunnerProbe::new(params, task, len)) {
                        Err(_) => {
                            push(&mut vs, "fn:runner_new", format!("Runner::new({:?}, task {}, len {:?}) panicked", params, task, len));
                            continue;
                        }
                        Ok(p) => p,
                    };
                    let max = probe.max_num_threads();
                    if max == 0 || max > n.max(1) || probe.chunk_size().1 == 0 {
                        push(&mut vs, "fn:runner_new", format!("Runner::new({:?}, task {}, len {:?}): max_num_threads {} chunk {:?}", params, task, len, max, probe.chunk_size()));
                    }
                    for spawned in 0..=10usize {
                        let rems: Vec<Option<usize>> = match len {
                            None => vec![None, Some(0)],
                            Some(l) => (0..=l).map(Some).collect(),
                        };
                        for rem in rems {
                            evals += 2;
                            let p2 = probe;
                            match catch_unwind(move || (p2.do_spawn(spawned, rem), p2.next_chunk_size(spawned, rem))) {
                                Err(_) => push(&mut vs, "fn:next_chunk_size", format!("do_spawn/next_chunk_size({}, {:?}) panicked for {:?} len {:?}", spawned, rem, params, len)),
                                Ok((sp, next)) => {
                                    if sp && spawned + 1 >= max {
                                        push(&mut vs, "fn:do_spawn", format!("do_spawn({}, {:?}) = true with max_num_threads {}", spawned, rem, max));
                                    }
                                    if let Some(c) = next {
                                        if c == 0 {
                                            push(&mut vs, "fn:next_chunk_size", format!("next_chunk_size({}, {:?}) = 0", spawned, rem));
                                        }
                                        if let (true, x) = probe.chunk_size() {
                                            if c != x {
                                                push(&mut vs, "fn:next_chunk_size:exact", format!("next_chunk_size({}, {:?}) = {} for Exact({})", spawned, rem, c, x));
                                            }
                                        }
                                    }
                                }
                            }
                        }
                    }
                }
            }
        }
    }
    (evals, vs)
}

fn kind_name(c: ChunkSize) -> &'static str {
    match c {
        ChunkSize::Auto => "auto",
        ChunkSize::Min(_) => "min",
        ChunkSize::Exact(_) => "exact",
    }
}
