//! Minimal JSON writer (no external crates).

pub fn esc(s: &str) -> String {
    let mut o = String::with_capacity(s.len() + 2);
    o.push('"');
    for c in s.chars() {
        match c {
            '"' => o.push_str("\\\""),
            '\\' => o.push_str("\\\\"),
            '\n' => o.push_str("\\n"),
            '\r' => o.push_str("\\r"),
            '\t' => o.push_str("\\t"),
            c if (c as u32) < 0x20 => o.push_str(&format!("\\u{:04x}", c as u32)),
            c => o.push(c),
        }
    }
    o.push('"');
    o
}

#[derive(Default)]
pub struct Obj {
    parts: Vec<String>,
}

impl Obj {
    pub fn new() -> Self {
        Obj { parts: Vec::new() }
    }
    pub fn s(mut self, k: &str, v: &str) -> Self {
        self.parts.push(format!("{}:{}", esc(k), esc(v)));
        self
    }
    pub fn n(mut self, k: &str, v: u64) -> Self {
        self.parts.push(format!("{}:{}", esc(k), v));
        self
    }
    pub fn i(mut self, k: &str, v: i64) -> Self {
        self.parts.push(format!("{}:{}", esc(k), v));
        self
    }
    pub fn b(mut self, k: &str, v: bool) -> Self {
        self.parts.push(format!("{}:{}", esc(k), v));
        self
    }
    pub fn raw(mut self, k: &str, v: &str) -> Self {
        self.parts.push(format!("{}:{}", esc(k), v));
        self
    }
    pub fn build(self) -> String {
        format!("{{{}}}", self.parts.join(","))
    }
}

pub fn arr(items: &[String]) -> String {
    format!("[{}]", items.join(","))
}
