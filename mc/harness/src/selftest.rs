//! Self tests of the machinery: (1) the reference interpreter agrees with real std::iter adaptor chains on
//! every chain / input / closure variant it is used with; (2) the explorer finds a seeded lost update in a
//! toy program (and proves its absence in the fixed toy); (3) replay determinism; (4) case encoding round trip.

use crate::dispatch;
use hcore::case::{Case, Src};
use hcore::chaintab as chains;
use hcore::closures as cl;
use hcore::model;
use hcore::source::{make_toks, src_elem};
use hcore::visit::Term;
use sched::explore::{explore, Next, Plan};
use sched::{OpKind, Stats};
use std::sync::atomic::{AtomicUsize, Ordering::SeqCst};

fn model_vs_std() -> bool {
    let mut n_cmp = 0u64;
    for cid in 0..chains::N_CHAINS {
        let kinds = model::chain_from_str(chains::CHAINS[cid]);
        for inp in [vec![], vec![0u8], vec![0, 1], vec![0, 1, 2], vec![0, 1, 2, 3], vec![0, 1, 2, 3, 4], vec![0, 1, 1, 0], vec![2, 2, 2]] {
            for (fm, ex) in [(u64::MAX, 0x5555_5555_5555_5555u64), (0x5555_5555_5555_5555, 0x9249_2492_4924_9249), (0x6666_6666_6666_6666, 0xAAAA_AAAA_AAAA_AAAA), (0, 0), (0b1011, 0xFFFF_FFFF_FFFF_FFFF)] {
                cl::reset();
                for i in 0..3 {
                    cl::FMASK[i].store(fm.rotate_left(i as u32), SeqCst);
                    cl::EXPAND[i].store(ex.rotate_left(2 * i as u32), SeqCst);
                }
                hcore::tok::reset_table();
                let input: Vec<(u64, u8)> = (0..inp.len()).map(|p| src_elem(&inp, p)).collect();
                let m = model::full(&kinds, &input);
                let std_ids = dispatch::std_chain(cid, make_toks(&inp));
                let std_calls = cl::take_calls();
                let model_ids: Vec<u64> = m.out.iter().map(|e| e.id).collect();
                n_cmp += 1;
                if model_ids != std_ids {
                    println!("MACHINERY-ERROR model != std chain {} input {:?}: {:x?} vs {:x?}", chains::CHAINS[cid], inp, model_ids, std_ids);
                    return false;
                }
                let a: Vec<(u8, u64)> = m.calls.iter().map(|c| (c.stage, c.id)).collect();
                let b: Vec<(u8, u64)> = std_calls.iter().map(|c| (c.stage, c.id)).collect();
                if a != b {
                    println!("MACHINERY-ERROR model call sequence != std chain {} input {:?}", chains::CHAINS[cid], inp);
                    return false;
                }
            }
        }
    }
    println!("selftest model-vs-std: {} comparisons of results and call sequences, all equal", n_cmp);
    true
}

/// two threads increment a shared counter non-atomically (load at one point, store at the next)
fn toy(atomic: bool, plan: &Plan) -> (u64, u64) {
    let mut stats = Stats::default();
    let mut lost = 0u64;
    let out = explore(plan, &mut stats, |prefix| {
        let counter = AtomicUsize::new(0);
        let ((), rec) = sched::run_one(&plan.config(), prefix, || {
            std::thread::scope(|s| {
                let mut ids = vec![];
                for _ in 0..2 {
                    let id = sched::before_spawn();
                    ids.push(id);
                    let c = &counter;
                    s.spawn(move || {
                        sched::worker_begin(id);
                        if atomic {
                            sched::point(OpKind::User, 0, 0);
                            c.fetch_add(1, SeqCst);
                        } else {
                            sched::point(OpKind::User, 0, 0);
                            let v = c.load(SeqCst);
                            sched::point(OpKind::User, 1, 0);
                            c.store(v + 1, SeqCst);
                        }
                        sched::worker_end(id);
                    });
                }
                for id in ids {
                    sched::before_join(id);
                }
                sched::leave_scope();
            });
        });
        if counter.load(SeqCst) != 2 {
            lost += 1;
        }
        (rec, Next::Continue)
    });
    (out.executions, lost)
}

/// the same racy increment written against `vatomic` (what tools/rewrite_repo.py re-points library code at):
/// no explicit scheduling points, the atomic operations themselves must be points
fn toy_vatomic(plan: &Plan) -> (u64, u64) {
    use vatomic::{AtomicUsize as VAtomicUsize, Ordering};
    let mut stats = Stats::default();
    let mut lost = 0u64;
    let out = explore(plan, &mut stats, |prefix| {
        let counter = VAtomicUsize::new(0);
        let ((), rec) = sched::run_one(&plan.config(), prefix, || {
            std::thread::scope(|s| {
                let mut ids = vec![];
                for _ in 0..2 {
                    let id = sched::before_spawn();
                    ids.push(id);
                    let c = &counter;
                    s.spawn(move || {
                        sched::worker_begin(id);
                        let v = c.load(Ordering::SeqCst);
                        c.store(v + 1, Ordering::SeqCst);
                        sched::worker_end(id);
                    });
                }
                for id in ids {
                    sched::before_join(id);
                }
                sched::leave_scope();
            });
        });
        if counter.into_inner() != 2 {
            lost += 1;
        }
        (rec, Next::Continue)
    });
    (out.executions, lost)
}

fn toy_test() -> bool {
    let (nv, lostv) = toy_vatomic(&Plan::full());
    println!("selftest vatomic: racy increment on re-pointed atomics, FULL {} schedules / {} lost updates", nv, lostv);
    if lostv == 0 {
        println!("MACHINERY-ERROR operations on vatomic atomics are not scheduling points");
        return false;
    }
    let (n, lost) = toy(false, &Plan::full());
    let (n1, lost1) = toy(false, &Plan::pb(1));
    let (n0, lost0) = toy(false, &Plan::pb(0));
    let (na, losta) = toy(true, &Plan::full());
    let (nd, lostd) = toy(false, &Plan::db(1));
    println!("selftest toy: racy FULL {} schedules / {} lost updates; PB(1) {} / {}; PB(0) {} / {}; DB(1) {} / {}; atomic FULL {} / {}", n, lost, n1, lost1, n0, lost0, nd, lostd, na, losta);
    if lost == 0 || lost1 == 0 || lost0 != 0 || losta != 0 || lostd == 0 {
        println!("MACHINERY-ERROR toy lost-update not found / found where impossible");
        return false;
    }
    true
}

fn determinism() -> bool {
    let mut c = Case::new(Src::SIter, 4, "MF", Term::CollectVec);
    c.known = false;
    c.nt[0] = hcore::settings::NtSet::Max(3);
    c.cs[0] = hcore::settings::CsSet::N(1);
    c.spoints = true;
    // round-robin base schedule: maximally interleaved
    let cfg = Plan::db(0).config();
    let a = hcore::case::run_case(&c, &cfg, &[], dispatch::body);
    let sch = a.rec.choices();
    for _ in 0..3 {
        let b = hcore::case::run_case(&c, &cfg, &sch, dispatch::body);
        if b.rec.log != a.rec.log || b.calls != a.calls || format!("{:?}", b.result) != format!("{:?}", a.result) {
            println!("MACHINERY-ERROR replay of the same schedule gave a different execution");
            return false;
        }
    }
    let enc = c.encode();
    if Case::decode(&enc) != c {
        println!("MACHINERY-ERROR case encoding does not round-trip: {}", enc);
        return false;
    }
    println!("selftest determinism: schedule of {} decisions replayed 3x identically; case encoding round-trips", sch.len());
    true
}

pub fn run() -> bool {
    model_vs_std() && toy_test() && determinism()
}
