//! Work items per property and tier. An item = (case, exploration plan, checks). Every list is a complete
//! enumeration of a stated finite space (no sampling); `describe()` states the space for the evidence.

use crate::runner::*;
use hcore::case::{Case, Src};
use hcore::chaintab as chains;
use hcore::closures::{ANY_ID, ST_PRED, ST_RED};
use hcore::settings::{CsSet, NtSet};
use hcore::source::src_elem;
use hcore::visit::{Term, LITE_TERMS};
use sched::explore::Plan;

#[derive(Clone, Copy, PartialEq, Eq, Debug)]
pub enum Tier {
    Quick,
    Thorough,
}

pub const ALL_PROPS: [&str; 16] = ["C01", "C02", "C03", "C04", "C05", "C06", "C07", "C08", "C09", "C10", "C11", "C12", "C13", "C14", "C15", "C16"];

const ALT: u64 = 0x5555_5555_5555_5555; // keeps slots 0,2,4,..
const ALT2: u64 = 0x6666_6666_6666_6666; // keeps slots 1,2,5,6,..
const EXP_DEFAULT: u64 = 0x5555_5555_5555_5555; // one child each
const EXP_MIX: u64 = 0x9249_2492_4924_9249 & !0; // 1,2,0,1,2,0,... (bit pairs 01 10 00)
const EXP_TWO: u64 = 0xAAAA_AAAA_AAAA_AAAA; // two children each

fn case(src: Src, n: usize, chain: &str, term: Term) -> Case {
    Case::new(src, n, chain, term)
}

fn par(mut c: Case, w: usize, cs: CsSet) -> Case {
    c.nt[0] = NtSet::Max(w);
    c.cs[0] = cs;
    c
}

fn unknown(mut c: Case) -> Case {
    c.known = false;
    c
}

/// cap on executions per item: far above what any item needs on the unchanged tree (a changed tree can make
/// an item explode, e.g. one surplus worker); an item that hits its cap is reported as not exhaustive
const DEFAULT_CAP: u64 = 40_000;

thread_local! {
    static THOROUGH: std::cell::Cell<bool> = const { std::cell::Cell::new(false) };
}

fn item(case: Case, plan: Plan, checks: u32) -> Item {
    // unwrapped sources have no pull points: interleave at closure entries instead
    let mut case = case;
    let mut plan = plan;
    if !case.src.wrapped() {
        case.cpoints = true;
    }
    // hash sets iterate in an order that differs from instance to instance (RandomState): with more than
    // one element an execution could not be replayed, so these sources only run with <= 1 element
    if matches!(case.src, Src::PHash | Src::PHashRef | Src::PHashMap | Src::PHashMapRef) && case.input.len() > 1 {
        case.input.truncate(1);
    }
    if !plan.single && plan.max_execs == 0 {
        plan.max_execs = if THOROUGH.with(|t| t.get()) { 10 * DEFAULT_CAP } else { DEFAULT_CAP };
    }
    Item { case, plan, checks }
}

/// interleavings *inside* the pulls of a by-value source (points in `next()`, busy-waiting peers made visible
/// by the spin hook) and at closure granularity (a point at every closure entry): finer than one source
/// operation per step, so that state shared through anything but the source is interleaved as well
fn engine_fine(terms: &[Term], checks: u32, tier: Tier, kernels: &[&str]) -> Vec<Item> {
    let th = tier == Tier::Thorough;
    let mut out = Vec::new();
    for ch in kernels {
        for t in terms {
            for cs in [CsSet::N(1), CsSet::N(2)] {
                // points inside next(): by-value source of exact / unknown size
                for known in [true, false] {
                    let mut c = par(case(Src::SIter, 4, ch, *t), 2, cs);
                    c.known = known;
                    c.spoints = true;
                    c.pmask = 0b0100;
                    out.push(item(c.clone(), if th { Plan::full().with_cap(300_000) } else { Plan::pb(2) }, checks));
                    // three workers: one evaluating, one inside next(), one waiting for the handle
                    let mut c3 = c.clone();
                    c3.nt[0] = NtSet::Max(3);
                    c3.input = (0..6).collect();
                    out.push(item(c3.clone(), Plan::db(2), checks));
                    if th {
                        out.push(item(c3, Plan::pb(2), checks));
                    }
                }
                // four workers, each holding a chunk (and a match), six delays from round robin: deep enough for a
                // worker to be overtaken twice between two consecutive operations on shared state (synchronisation
                // primitives of the library's own code are scheduling points, tools/rewrite_repo.py)
                if cs == CsSet::N(2) {
                    for (src, known) in [(Src::SVec, true), (Src::SIter, false)] {
                        let mut c4 = par(case(src, 8, ch, *t), 4, cs);
                        c4.known = known;
                        c4.pmask = 0xFF;
                        // full-visit terminals take many more steps: the same budget buys fewer delays there
                        let d = match (t.is_short_circuit(), th) {
                            (true, false) => 6,
                            (true, true) => 7,
                            (false, false) => 3,
                            (false, true) => 4,
                        };
                        out.push(item(c4, Plan::db(d), checks));
                    }
                }
                // closure granularity on a wrapped Vec
                for pm in [0b0110u64, 0b1000, 0b0101] {
                    if !t.uses_pred() && pm != 0b0110 {
                        continue;
                    }
                    let mut c = par(case(Src::SVec, 4, ch, *t), 2, cs);
                    c.cpoints = true;
                    c.pmask = pm;
                    out.push(item(c.clone(), if th { Plan::full().with_cap(300_000) } else { Plan::pb(2) }, checks));
                    let mut c3 = par(case(Src::SVec, 6, ch, *t), 3, cs);
                    c3.cpoints = true;
                    c3.pmask = pm << 2;
                    out.push(item(c3.clone(), Plan::db(2), checks));
                    if th {
                        out.push(item(c3, Plan::pb(2).with_cap(300_000), checks));
                    }
                }
            }
        }
    }
    out
}

/// long inputs (300 .. 5000 elements) with Auto / large chunk sizes and many threads: size-dependent branches
/// ("small input" fast paths, thresholds on the number of per-thread vectors, the Auto chunk-size search)
fn engine_big(terms: &[Term], checks: u32, tier: Tier, kernels: &[&str]) -> Vec<Item> {
    let th = tier == Tier::Thorough;
    let mut out = Vec::new();
    let ns: &[usize] = if th { &[300, 1000, 1500, 5000] } else { &[300, 1500] };
    for (src, known) in [(Src::SVec, true), (Src::PVec, true), (Src::SIter, false)] {
        for ch in kernels {
            if !src.supports(chains::CHAINS.iter().position(|c| c == ch).unwrap()) {
                continue;
            }
            for t in terms {
                for n in ns {
                    for (pi, (nt, cs)) in [
                        (NtSet::Keep, CsSet::Keep),
                        (NtSet::Max(8), CsSet::Min(16)),
                        (NtSet::Max(3), CsSet::N(1000)),
                        (NtSet::Max(7), CsSet::N(7)),
                        (NtSet::Max(4), CsSet::Keep),
                        (NtSet::Keep, CsSet::N(64)),
                    ]
                    .into_iter()
                    .enumerate()
                    {
                        if !th && pi >= 4 {
                            continue;
                        }
                        let mut c = case(src, 0, ch, *t);
                        c.input = (0..*n).map(|i| i as u8).collect();
                        c.known = known;
                        c.nt[0] = nt;
                        c.cs[0] = cs;
                        c.pmask = 1 << 61;
                        for mc in mask_variants(&c, false) {
                            out.push(item(mc.clone(), Plan::base_rr(), checks));
                            out.push(item(mc.clone(), Plan::base_rr().with_slow0(3), checks));
                            if th {
                                out.push(item(mc, Plan::base_np(), checks));
                            }
                        }
                    }
                }
            }
        }
    }
    out
}

/// very long inputs (400 000 elements; thorough also 2 300 000) under one base schedule: element-count and
/// byte-size thresholds of "long input" / "large buffer" paths (per-worker buffers, fragment reservations, eager
/// spawning) that sit at powers of two up to 2^17 per worker (thorough: 2^20). Variants: everything survives
/// (largest per-worker buffers) and the alternating masks / mixed expansions.
fn engine_huge(terms: &[Term], checks: u32, tier: Tier, kernels: &[&str]) -> Vec<Item> {
    let th = tier == Tier::Thorough;
    let mut out = Vec::new();
    let ns: &[usize] = if th { &[400_000, 2_300_000] } else { &[400_000] };
    for ch in kernels {
        let cid = chains::CHAINS.iter().position(|c| c == ch).unwrap();
        for t in terms {
            for n in ns {
                for (src, known, nt, cs) in [
                    (Src::SVec, true, NtSet::Max(2), CsSet::Keep),
                    (Src::SVec, true, NtSet::Max(3), CsSet::N(1024)),
                    (Src::SIter, false, NtSet::Max(2), CsSet::N(512)),
                ] {
                    if !src.supports(cid) {
                        continue;
                    }
                    let mut c = case(src, 0, ch, *t);
                    c.input = (0..*n).map(|i| i as u8).collect();
                    c.known = known;
                    c.nt[0] = nt;
                    c.cs[0] = cs;
                    // the only match is close to the end: short-circuit terminals scan (almost) everything
                    c.pred_pos = [(*n - 7) as u32, u32::MAX];
                    for mc in mask_variants(&c, false) {
                        out.push(item(mc, Plan::base_rr().with_horizon(4_000_000), checks));
                    }
                }
            }
        }
    }
    out
}

/// 64 KiB items (tok::Big): byte-size thresholds (chunk buffers, per-worker vectors, "large item" paths) are
/// reached with few elements: a chunk of 1 100 items is 70 MiB, a worker vector of 300 survivors 19 MiB
fn engine_bigitem(terms: &[Term], checks: u32, tier: Tier, kernels: &[&str]) -> Vec<Item> {
    let th = tier == Tier::Thorough;
    let mut out = Vec::new();
    for ch in kernels {
        let cid = chains::CHAINS.iter().position(|c| c == ch).unwrap();
        for t in terms {
            for (src, known) in [(Src::SBigVec, true), (Src::SBigIter, false)] {
                if !src.supports(cid) {
                    continue;
                }
                let mut cfgs = vec![(40usize, 2usize, CsSet::N(1)), (600, 2, CsSet::Keep), (600, 3, CsSet::N(64)), (2400, 2, CsSet::Exact(1100))];
                if th {
                    cfgs.push((4500, 3, CsSet::Exact(2100)));
                }
                for (n, w, cs) in cfgs {
                    let mut c = par(case(src, 0, ch, *t), w, cs);
                    c.input = (0..n).map(|i| i as u8).collect();
                    c.known = known;
                    c.pred_pos = [(n - 3) as u32, u32::MAX];
                    for mc in mask_variants(&c, false) {
                        out.push(item(mc.clone(), Plan::base_rr().with_horizon(200_000), checks));
                        if n == 40 {
                            out.push(item(mc, Plan::db(1), checks));
                        }
                    }
                }
            }
        }
    }
    out
}

/// sources in a particular *state* (concurrent iterators advanced before `into_par()`, both ring-buffer layouts of a
/// `VecDeque`) crossed with inputs of 150-300 elements and chunks of 64 / 100 / Auto elements: positions reported
/// by such a source are not positions among the remaining elements
fn engine_prestate(terms: &[Term], checks: u32, tier: Tier) -> Vec<Item> {
    let th = tier == Tier::Thorough;
    let mut out = Vec::new();
    for src in [Src::PConVecPre, Src::PConSlicePre, Src::PConRangePre, Src::PConIterPre, Src::PDeque, Src::PDequeRef] {
        for cid in chains::SMALL {
            for t in terms {
                if !term_ok(src, cid, *t) {
                    continue;
                }
                for n in [151usize, 300] {
                    for (w, cs) in [(2usize, CsSet::N(64)), (3, CsSet::N(100)), (2, CsSet::Keep)] {
                        if !th && n == 151 && w == 3 {
                            continue;
                        }
                        let mut c = par(case(src, 0, chains::CHAINS[cid], *t), w, cs);
                        c.input = (0..n).map(|i| i as u8).collect();
                        c.pred_pos = [(n - 5) as u32, u32::MAX];
                        c.cp_limit = 4;
                        for mc in mask_variants(&c, false) {
                            out.push(item(mc, Plan::base_rr().with_horizon(200_000), checks));
                        }
                    }
                }
            }
        }
    }
    out
}

/// collects whose *output* type is zero-sized, 136 bytes (wider than a cache line) or 64 KiB: `.map(..)` into that type
/// appended to the chain; all parameter kinds (Auto, Exact, Min), sequential and parallel
fn engine_outtype(checks: u32, tier: Tier, with_zst: bool) -> Vec<Item> {
    let th = tier == Tier::Thorough;
    let mut out = Vec::new();
    let terms = [
        Term::ZCollect, Term::ZCollectVec, Term::ZCollectX, Term::ZIntoSplit, Term::ZIntoVec, Term::WCollect, Term::WCollectVec, Term::WCollectX, Term::WIntoVec, Term::HCollect, Term::HCollectVec,
        Term::HCollectX,
    ];
    for (src, known) in [(Src::SVec, true), (Src::PVec, true), (Src::SIter, false)] {
        for cid in chains::TOK_SUBSET {
            for t in terms {
                if !src.supports(cid) || !term_ok(src, cid, t) || (t.is_zst() && !with_zst) {
                    continue;
                }
                for n in [0usize, 1, 5] {
                    for (w, cs) in [(2usize, CsSet::N(1)), (3, CsSet::N(2)), (1, CsSet::Keep), (2, CsSet::Keep), (2, CsSet::Min(2)), (3, CsSet::Min(1))] {
                        if !th && matches!(cs, CsSet::Min(_)) && n != 5 {
                            continue;
                        }
                        let mut c = par(case(src, n, chains::CHAINS[cid], t), w, cs);
                        c.known = known;
                        for mc in mask_variants(&c, false) {
                            out.push(item(mc.clone(), Plan::base_rr(), checks));
                            if w > 1 && n > 1 && matches!(cs, CsSet::N(_)) {
                                out.push(item(mc, Plan::db(1), checks));
                            }
                        }
                    }
                }
            }
        }
    }
    out
}

/// one very long flat_map expansion (70 000 lazily produced children of one input element) and expansions of 2 000
/// children whose size hint announces only 3/4 of them: the length and the announced length of a *single* expansion
fn engine_longexp(terms: &[Term], checks: u32, tier: Tier) -> Vec<Item> {
    let th = tier == Tier::Thorough;
    let mut out = Vec::new();
    for ch in ["X", "XF", "XM", "MX", "FX", "OX", "XO"] {
        let cid = chains::CHAINS.iter().position(|c| *c == ch).unwrap();
        for t in terms {
            for mode in [3u8, 4] {
                for (src, known) in [(Src::SVec, true), (Src::SIter, false)] {
                    if !src.supports(cid) || !term_ok(src, cid, *t) {
                        continue;
                    }
                    for (w, cs) in [(2usize, CsSet::N(1)), (2, CsSet::N(2)), (3, CsSet::Keep), (1, CsSet::Keep)] {
                        if !th && mode == 3 && (w == 3 || (cs == CsSet::N(2) && src == Src::SIter)) {
                            continue;
                        }
                        // five inputs: the first and the last one (slots 0 and 4) have the long expansion
                        let mut c = par(case(src, 5, ch, *t), w, cs);
                        c.known = known;
                        c.exp_mode = mode;
                        c.pmask = 1 << 63;
                        out.push(item(c, Plan::base_rr().with_horizon(200_000), checks));
                    }
                }
            }
        }
    }
    out
}

/// both settings of the virtual clock (`case.clk`): whatever the library derives from elapsed time (adaptive chunk
/// sizes, "cheap closure" fast paths) is decided by the case; every other family runs with the clock standing still
fn engine_clock(terms: &[Term], checks: u32, tier: Tier, kernels: &[&str]) -> Vec<Item> {
    let th = tier == Tier::Thorough;
    let mut out = Vec::new();
    for ch in kernels {
        let cid = chains::CHAINS.iter().position(|c| c == ch).unwrap();
        for t in terms {
            for clk in [0u8, 1] {
                for (src, known) in [(Src::SVec, true), (Src::SIter, false), (Src::SIter, true)] {
                    if !src.supports(cid) || (!th && src == Src::SIter && known) {
                        continue;
                    }
                    for (w, cs) in [(2usize, CsSet::Keep), (2, CsSet::N(1)), (3, CsSet::N(4)), (3, CsSet::Min(2))] {
                        if !th && clk == 0 && w == 3 {
                            continue;
                        }
                        let mut c = par(case(src, 48, ch, *t), w, cs);
                        c.known = known;
                        c.clk = clk;
                        c.pred_pos = [44, u32::MAX];
                        for mc in mask_variants(&c, false) {
                            out.push(item(mc.clone(), Plan::base_rr(), checks));
                            out.push(item(mc, Plan::base_rr().with_slow0(3), checks));
                        }
                    }
                }
            }
        }
    }
    out
}

/// the computation is built and run inside a closure of another parallel computation (on a worker thread of it)
fn engine_nested(terms: &[Term], checks: u32, tier: Tier) -> Vec<Item> {
    let th = tier == Tier::Thorough;
    let mut out = Vec::new();
    for (src, cid) in all_units() {
        if is_lite(cid) && !th {
            continue;
        }
        for t in terms {
            if !term_ok(src, cid, *t) {
                continue;
            }
            for (nt, cs) in [(NtSet::Keep, CsSet::Keep), (NtSet::Max(2), CsSet::N(1)), (NtSet::N(1), CsSet::Keep)] {
                let mut c = case(src, 3, chains::CHAINS[cid], *t);
                c.nt[0] = nt;
                c.cs[0] = cs;
                c.nested = true;
                c.pmask = 0b0100;
                out.push(item(c, Plan::base_rr(), checks));
            }
        }
    }
    out
}

/// many workers and a slow spawner: workers are spawned after the first lag period, `Min` chunk sizes grow
/// (the spawner's view of the remaining length depends on how far the first workers got)
fn engine_lag(terms: &[Term], checks: u32, tier: Tier, kernels: &[&str]) -> Vec<Item> {
    let th = tier == Tier::Thorough;
    let mut out = Vec::new();
    for (src, known) in [(Src::SVec, true), (Src::SIter, true)] {
        for ch in kernels {
            for t in terms {
                for cs in [CsSet::Min(1), CsSet::Min(2), CsSet::Keep] {
                    for n in [24usize, 31, 40] {
                        for w in [5usize, 6, 7, 8] {
                            if !th && ((w == 8 && n != 31) || (w == 7 && n != 24) || (w == 5 && n == 40)) {
                                continue;
                            }
                            let mut c = par(case(src, n, ch, *t), w, cs);
                            c.known = known;
                            c.pmask = 1 << 20;
                            for mc in mask_variants(&c, false) {
                                out.push(item(mc.clone(), Plan::db(1), checks));
                                out.push(item(mc.clone(), Plan::base_rr().with_slow0(2), checks));
                                if th {
                                    out.push(item(mc.clone(), Plan::db(1).with_slow0(2), checks));
                                    out.push(item(mc, Plan::db(2).with_cap(20_000), checks));
                                }
                            }
                        }
                    }
                }
            }
        }
    }
    out
}

fn fair(p: Plan, w: usize) -> Plan {
    p.with_fair(2 * w as u32 + 2, 800)
}

/// chains that reach each parallel kernel family directly
const KC: [&str; 8] = ["", "M", "F", "MF", "O", "OF", "X", "XF"];
const KC4: [&str; 4] = ["M", "MF", "OF", "XF"];

fn filters_in(chain: &str) -> Vec<usize> {
    chain.chars().enumerate().filter(|(_, c)| matches!(c, 'F' | 'O' | 'R')).map(|(i, _)| i).collect()
}
fn flatmaps_in(chain: &str) -> Vec<usize> {
    chain.chars().enumerate().filter(|(_, c)| *c == 'X').map(|(i, _)| i).collect()
}

/// closure-parameter variants of a chain: default (keep all, one child), alternating masks, mixed expansions
fn mask_variants(c: &Case, rich: bool) -> Vec<Case> {
    let ch = c.chain_str();
    let fs = filters_in(ch);
    let xs = flatmaps_in(ch);
    let mut out = vec![c.clone()];
    if !fs.is_empty() || !xs.is_empty() {
        let mut a = c.clone();
        for (k, i) in fs.iter().enumerate() {
            a.fmask[*i] = if k % 2 == 0 { ALT } else { ALT2 };
        }
        for i in &xs {
            a.expand[*i] = EXP_MIX;
        }
        out.push(a);
    }
    if rich {
        if !fs.is_empty() {
            let mut a = c.clone();
            for i in &fs {
                a.fmask[*i] = 0; // nothing survives
            }
            out.push(a);
            let mut b = c.clone();
            for i in &fs {
                b.fmask[*i] = !ALT;
            }
            out.push(b);
        }
        if !xs.is_empty() {
            let mut a = c.clone();
            for i in &xs {
                a.expand[*i] = EXP_TWO;
            }
            out.push(a);
            let mut b = c.clone();
            for i in &xs {
                b.expand[*i] = 0; // every expansion is empty
            }
            out.push(b);
        }
    }
    out
}

/// all 2^n masks of the first filtering stage of the chain (other stages keep everything)
fn all_first_filter_masks(c: &Case, n: usize) -> Vec<Case> {
    let fs = filters_in(c.chain_str());
    match fs.first() {
        None => vec![c.clone()],
        Some(i) => (0..(1u64 << n))
            .map(|m| {
                let mut a = c.clone();
                a.fmask[*i] = m;
                a
            })
            .collect(),
    }
}

/// all expansion vectors over `alphabet`^n for the first flat_map stage of the chain
fn all_first_expansions(c: &Case, n: usize, alphabet: &[u64]) -> Vec<Case> {
    let xs = flatmaps_in(c.chain_str());
    match xs.first() {
        None => vec![c.clone()],
        Some(i) => {
            let k = alphabet.len();
            (0..k.pow(n as u32))
                .map(|mut code| {
                    let mut e = 0u64;
                    for slot in 0..n {
                        e |= alphabet[code % k] << (2 * slot);
                        code /= k;
                    }
                    let mut a = c.clone();
                    a.expand[*i] = e;
                    a
                })
                .collect()
        }
    }
}

/// all {0,2}^6 expansion vectors of the first flat_map stage on chains around flat_map, for one terminal family:
/// sequential, two workers (both chunk paths), three workers
fn expansion_sweep(terms: &[Term], checks: u32, tier: Tier, seq_only: bool) -> Vec<Item> {
    let th = tier == Tier::Thorough;
    let mut out = Vec::new();
    for ch in ["X", "XF", "XM", "MX", "XX", "FX", "OX", "XO"] {
        for t in terms {
            let cid = chains::CHAINS.iter().position(|c| *c == ch).unwrap();
            if !term_ok(Src::SVec, cid, *t) {
                continue;
            }
            let base = case(Src::SVec, 6, ch, *t);
            let alphabet: &[u64] = if th { &[0, 1, 2] } else { &[0, 2] };
            for mut mc in all_first_expansions(&base, 6, alphabet) {
                mc.pmask = u64::MAX;
                let mut sq = mc.clone();
                sq.nt[0] = NtSet::N(1);
                out.push(item(sq, Plan::base_np(), checks));
                if seq_only {
                    continue;
                }
                for (w, cs) in [(2usize, CsSet::N(1)), (2, CsSet::N(2)), (3, CsSet::N(3))] {
                    let c = par(mc.clone(), w, cs);
                    out.push(item(c.clone(), Plan::base_rr(), checks));
                    if th {
                        out.push(item(c, Plan::pb(1), checks));
                    }
                }
            }
        }
    }
    out
}

/// every (source kind, chain) unit that is instantiated
fn all_units() -> Vec<(Src, usize)> {
    let mut v = Vec::new();
    for (s, _) in hcore::case::ALL_SRC.iter() {
        if matches!(*s, Src::PRangeMax | Src::PRangeBig | Src::PFltCopied | Src::PFltCloned) {
            continue; // practically endless: only in the explicit C10 items
        }
        for cid in 0..chains::N_CHAINS {
            if s.supports(cid) {
                v.push((*s, cid));
            }
        }
    }
    v
}

fn is_lite(cid: usize) -> bool {
    !chains::COVER.contains(&cid) && !chains::SMALL.contains(&cid)
}

fn term_ok(src: Src, cid: usize, t: Term) -> bool {
    let tok_items = matches!(
        src,
        Src::SVec | Src::SIter | Src::PVec | Src::PIter | Src::PDeque | Src::PList | Src::PBTree | Src::PHeap | Src::PHash | Src::PConVec | Src::PConVecPre | Src::PConIter | Src::PConIterPar | Src::PConIterPre | Src::PConIterParPre
    );
    // positions reported for a source that was partly consumed beforehand are not defined by the property
    let pre = matches!(src, Src::PConVecPre | Src::PConSlicePre | Src::PConRangePre | Src::PConIterPre | Src::PConIterParPre);
    let adaptor = matches!(src, Src::PClonedAd | Src::PCopiedAd | Src::PClonedIt | Src::PFltCopied | Src::PFltCloned);
    if t.needs_tok() {
        return tok_items && chains::TOK_SUBSET.contains(&cid);
    }
    if matches!(t, Term::FindIdx | Term::FirstIdx) {
        return chains::INFO[cid].3 && !is_lite(cid) && !adaptor && !pre;
    }
    if is_lite(cid) {
        return LITE_TERMS.contains(&t);
    }
    true
}

/// parameter settings used by the program-enumeration part (engine E)
fn e_params(thorough: bool) -> Vec<(NtSet, CsSet)> {
    let mut v = vec![(NtSet::Keep, CsSet::Keep), (NtSet::Max(2), CsSet::N(1)), (NtSet::Max(3), CsSet::N(2)), (NtSet::N(2), CsSet::Min(2))];
    if thorough {
        v.push((NtSet::Max(4), CsSet::Min(1)));
        v.push((NtSet::Max(2), CsSet::Exact(3)));
        v.push((NtSet::Auto, CsSet::N(1)));
    }
    v
}

/// base schedules of the program-enumeration part: polynomial in the number of threads
/// (preemption bounding branches freely at every blocking point, which explodes with Auto = many threads)
fn base_plans(thorough: bool) -> Vec<Plan> {
    if thorough {
        vec![Plan::base_np(), Plan::db(1)]
    } else {
        vec![Plan::base_np(), Plan::base_rr()]
    }
}

fn inputs(n_max: usize, dups: bool) -> Vec<Vec<u8>> {
    let mut v: Vec<Vec<u8>> = (0..=n_max).map(|n| (0..n as u8).collect()).collect();
    if dups {
        v.push(vec![0, 1, 1, 0]);
        v.push(vec![2, 2, 2]);
    }
    v
}

/// engine E: every instantiated (source, chain) x terminals x inputs x parameter settings x closure variants,
/// each under the base schedules.
fn engine_e(terms: &[Term], checks: u32, tier: Tier, pmasks: &[u64], red_kinds: &[u8]) -> Vec<Item> {
    let th = tier == Tier::Thorough;
    let mut out = Vec::new();
    for (src, cid) in all_units() {
        let full_src = matches!(src, Src::SVec | Src::SIter | Src::PVec | Src::PIter);
        let n_max = if th { 5 } else { 4 };
        for inp in inputs(if full_src { n_max } else { 3 }, src == Src::SVec) {
            if !full_src && inp.len() == 1 {
                continue;
            }
            for t in terms {
                if !term_ok(src, cid, *t) {
                    continue;
                }
                for (pi, (nt, cs)) in e_params(th).into_iter().enumerate() {
                    if !full_src && pi > 1 {
                        continue;
                    }
                    let mut c = Case::new(src, 0, chains::CHAINS[cid], *t);
                    c.input = inp.clone();
                    c.nt[0] = nt;
                    c.cs[0] = cs;
                    for known in [true, false] {
                        if !matches!(src, Src::SIter | Src::PIter) && !known {
                            continue;
                        }
                        c.known = known;
                        for mc in mask_variants(&c, th && full_src) {
                            let pms: Vec<u64> = if t.uses_pred() { pmasks.to_vec() } else { vec![u64::MAX] };
                            for pm in pms {
                                let rks: Vec<u8> = if matches!(t, Term::Reduce | Term::Fold) { red_kinds.to_vec() } else { vec![0] };
                                for rk in rks {
                                    let mut c2 = mc.clone();
                                    c2.pmask = pm;
                                    c2.red_kind = rk;
                                    for plan in base_plans(th) {
                                        out.push(item(c2.clone(), plan, checks));
                                    }
                                }
                            }
                        }
                    }
                }
            }
        }
    }
    out
}

const ORDERED: [Term; 6] = [Term::CollectVec, Term::Collect, Term::IntoVec, Term::IntoSplitD, Term::IntoSplitL, Term::IntoFixed];

/// engine S items for one family of terminals: kernels x chunk path x sources, FULL for 2 workers,
/// bounded for 3 workers.
fn engine_s(terms: &[Term], checks: u32, tier: Tier, kernels: &[&str], all_masks: bool) -> Vec<Item> {
    let th = tier == Tier::Thorough;
    let mut out = Vec::new();
    for (src, known) in [(Src::SVec, true), (Src::SIter, false), (Src::SIter, true)] {
        if !th && src == Src::SIter && known {
            continue;
        }
        for ch in kernels {
            for t in terms {
                for cs in [CsSet::N(1), CsSet::N(2)] {
                    // two workers, every interleaving
                    let n = if th { 5 } else { 4 };
                    let mut c = par(case(src, n, ch, *t), 2, cs);
                    c.known = known;
                    for mc in mask_variants(&c, false) {
                        out.push(item(mc, Plan::full(), checks));
                    }
                    // three workers, every interleaving (thorough; ~25 000 executions / 6 700 states per item)
                    if th && src == Src::SVec {
                        let c3f = par(case(src, 4, ch, *t), 3, cs);
                        out.push(item(c3f, Plan::full(), checks));
                    }
                    // three workers, bounded
                    let mut c3 = par(case(src, 6, ch, *t), 3, cs);
                    c3.known = known;
                    for mc in mask_variants(&c3, false) {
                        out.push(item(mc.clone(), Plan::pb(if th { 2 } else { 1 }), checks));
                        out.push(item(mc, Plan::db(2), checks));
                    }
                }
                // Min / Auto chunk sizes, three workers
                for cs in [CsSet::Min(2), CsSet::Auto] {
                    let c3 = par(case(src, 6, ch, *t), 3, cs);
                    out.push(item(c3.clone(), Plan::pb(1), checks));
                    out.push(item(c3, Plan::db(if th { 2 } else { 1 }), checks));
                }
            }
            // all expansion vectors of the first flat_map stage: {0,2}^6 (thorough {0,1,2}^6), two workers
            if all_masks && src == Src::SVec && !flatmaps_in(ch).is_empty() {
                for cs in [CsSet::N(1), CsSet::N(2), CsSet::N(3)] {
                    let c = par(case(src, 6, ch, terms[0]), 2, cs);
                    let alphabet: &[u64] = if th { &[0, 1, 2] } else { &[0, 2] };
                    for mc in all_first_expansions(&c, 6, alphabet) {
                        out.push(item(mc, Plan::pb(1), checks));
                    }
                }
            }
            // all 2^N masks of the first filtering stage, bounded schedules
            if all_masks && src == Src::SVec && !filters_in(ch).is_empty() {
                let n = if th { 5 } else { 4 };
                for cs in [CsSet::N(1), CsSet::N(2)] {
                    let c = par(case(src, n, ch, terms[0]), 2, cs);
                    for mc in all_first_filter_masks(&c, n) {
                        out.push(item(mc, Plan::pb(if th { 2 } else { 1 }), checks));
                    }
                }
                // longer inputs: whole chunks rejected before, between and after chunks with survivors
                for (w, cs) in [(2usize, CsSet::N(2)), (2, CsSet::N(3)), (3, CsSet::N(2))] {
                    let c = par(case(src, 6, ch, terms[0]), w, cs);
                    for mc in all_first_filter_masks(&c, 6) {
                        out.push(item(mc.clone(), Plan::base_rr(), checks));
                        if th || w == 2 {
                            out.push(item(mc, Plan::pb(1), checks));
                        }
                    }
                }
            }
        }
    }
    out
}

pub fn items(prop: &str, tier: Tier) -> Vec<Item> {
    let th = tier == Tier::Thorough;
    THOROUGH.with(|t| t.set(th));
    let mut out: Vec<Item> = Vec::new();
    match prop {
        // ordered collect == sequential
        "C01" => {
            let terms: Vec<Term> = if th { ORDERED.to_vec() } else { vec![Term::CollectVec, Term::Collect, Term::IntoVec, Term::IntoSplitD, Term::IntoFixed] };
            let kernels: Vec<&str> = if th { KC[1..].to_vec() } else { KC4.to_vec() };
            out.extend(engine_s(&terms, CK_RESULT, tier, &kernels, true));
            out.extend(engine_lag(&[Term::CollectVec, Term::Collect], CK_RESULT, tier, &KC[1..]));
            out.extend(expansion_sweep(&[Term::CollectVec], CK_RESULT, tier, false));
            out.extend(engine_big(&[Term::CollectVec, Term::Collect], CK_RESULT, tier, &KC4));
            out.extend(engine_huge(&[Term::CollectVec, Term::Collect], CK_RESULT, tier, &KC4));
            out.extend(engine_bigitem(&[Term::CollectVec, Term::Collect, Term::IntoVec], CK_RESULT, tier, &["", "M", "F", "X", "O"]));
            out.extend(engine_nested(&[Term::CollectVec, Term::Collect], CK_RESULT, tier));
            out.extend(engine_prestate(&[Term::CollectVec, Term::Collect, Term::IntoVec], CK_RESULT, tier));
            out.extend(engine_longexp(&[Term::CollectVec, Term::Collect], CK_RESULT, tier));
            out.extend(engine_clock(&[Term::CollectVec, Term::Collect], CK_RESULT, tier, &KC4));
            out.extend(engine_outtype(CK_RESULT, tier, true));
            out.extend(engine_fine(&[Term::CollectVec, Term::Collect], CK_RESULT, tier, &KC4));
            out.extend(engine_e(&[Term::CollectVec, Term::Collect, Term::IntoVec], CK_RESULT, tier, &[], &[]));
        }
        // find / first / any / all
        "C02" => {
            let kernels = ["", "M", "MF", "OF", "XF"];
            for (src, known) in [(Src::SVec, true), (Src::SIter, false)] {
                for ch in kernels {
                    for cs in [CsSet::N(1), CsSet::N(2)] {
                        let n = if th { 5 } else { 4 };
                        // every predicate over N positions, every interleaving of two workers
                        for pm in 0..(1u64 << n) {
                            let mut c = par(case(src, n, ch, Term::Find), 2, cs);
                            c.known = known;
                            c.pmask = pm;
                            out.push(item(c, Plan::full(), CK_RESULT));
                        }
                        for t in [Term::First, Term::Any, Term::All] {
                            for pm in [0u64, 1, 1 << (n - 1), 0b0110, u64::MAX] {
                                let mut c = par(case(src, n, ch, t), 2, cs);
                                c.known = known;
                                c.pmask = pm;
                                if t == Term::First {
                                    // `first` has no predicate: vary the pipeline filter instead
                                    if let Some(i) = filters_in(ch).first() {
                                        c.fmask[*i] = pm;
                                    }
                                }
                                out.push(item(c, if th { Plan::full() } else { Plan::pb(2) }, CK_RESULT));
                            }
                        }
                        // four workers, every one of them holding a match
                        if cs == CsSet::N(2) || th {
                            for pm in [0xFFu64, 0b0101_0101] {
                                let mut c = par(case(src, 8, ch, Term::Find), 4, cs);
                                c.known = known;
                                c.pmask = pm;
                                out.push(item(c.clone(), Plan::pb(2), CK_RESULT));
                                out.push(item(c, Plan::db(2), CK_RESULT));
                            }
                        }
                        // three workers: matches in different chunks
                        for pm in [1u64 << 5, (1 << 2) | (1 << 5), 1 | (1 << 3), (1 << 4) | (1 << 1), 0b010101, 0b111111, 0] {
                            let mut c = par(case(src, 6, ch, Term::Find), 3, cs);
                            c.known = known;
                            c.pmask = pm;
                            out.push(item(c.clone(), Plan::pb(if th { 3 } else { 2 }), CK_RESULT));
                            out.push(item(c, Plan::db(2), CK_RESULT));
                        }
                    }
                }
            }
            out.extend(engine_lag(&[Term::Find], CK_RESULT, tier, &["", "M", "MF", "OF", "XF"]));
            out.extend(expansion_sweep(&[Term::First, Term::Find, Term::Any], CK_RESULT, tier, false));
            out.extend(engine_big(&[Term::Find, Term::FindIdx], CK_RESULT, tier, &["", "M", "MF", "OF", "XF"]));
            out.extend(engine_huge(&[Term::Find, Term::FindIdx, Term::All], CK_RESULT, tier, &["", "MF", "OF", "XF"]));
            out.extend(engine_bigitem(&[Term::Find, Term::First], CK_RESULT, tier, &["", "M", "F", "X", "O"]));
            out.extend(engine_prestate(&[Term::Find, Term::First, Term::Any, Term::All], CK_RESULT, tier));
            out.extend(engine_longexp(&[Term::Find, Term::Any], CK_RESULT, tier));
            out.extend(engine_clock(&[Term::Find, Term::Any], CK_RESULT, tier, &["", "M", "MF", "OF", "XF"]));
            out.extend(engine_fine(&[Term::Find, Term::First, Term::Any, Term::FindIdx], CK_RESULT, tier, &["", "M", "MF", "OF", "XF"]));
            // chunks of thousands of elements, sparse matches given by position, a preemption right after a pull:
            // closure entries are scheduling points only for the first two calls of each thread
            for ch in ["", "M", "F", "MF", "O", "X"] {
                for t in [Term::Find, Term::FindIdx, Term::Any] {
                    let cid = chains::CHAINS.iter().position(|c| *c == ch).unwrap();
                    if !term_ok(Src::SVec, cid, t) {
                        continue;
                    }
                    for (c, n, pp) in [(8192usize, 20_000usize, [5000u32, 8202]), (8192, 20_000, [8191, 8192]), (5000, 12_000, [4500, 5001]), (300, 2_000, [250, 310])] {
                        if !th && c == 5000 {
                            continue;
                        }
                        for w in [2usize, 3] {
                            let mut cs = par(case(Src::SVec, 0, ch, t), w, CsSet::N(c));
                            cs.input = (0..n).map(|i| i as u8).collect();
                            cs.pred_pos = pp;
                            cs.cpoints = true;
                            cs.cp_limit = 2;
                            out.push(item(cs.clone(), Plan::pb(if w == 2 { 2 } else { 1 }), CK_RESULT));
                            out.push(item(cs, Plan::db(1), CK_RESULT));
                        }
                    }
                }
            }
            // *_with_index on the concrete builder types
            for ch in ["", "M", "F", "MF", "MM", "FF"] {
                // (N, c): full chunks, a short last chunk, a chunk longer than the input
                for (n, c) in [(4usize, 1usize), (4, 2), (5, 2), (4, 3), (5, 3), (7, 4), (3, 5)] {
                    let cs = CsSet::N(c);
                    for pm in 0..(1u64 << n) {
                        if n > 5 && pm.count_ones() > 2 {
                            continue;
                        }
                        let mut c = par(case(Src::SVec, n, ch, Term::FindIdx), 2, cs);
                        c.pmask = pm;
                        out.push(item(c.clone(), if th { Plan::full() } else { Plan::pb(2) }, CK_RESULT));
                        if n == 5 {
                            let mut ci = par(case(Src::SIter, n, ch, Term::FindIdx), 2, cs);
                            ci.known = pm % 2 == 0;
                            ci.pmask = pm;
                            out.push(item(ci, Plan::pb(1), CK_RESULT));
                        }
                    }
                    for fm in [u64::MAX, 0b1000, 0b0100, 0b1010, 0b10000, 0] {
                        let mut c = par(case(Src::SVec, n, ch, Term::FirstIdx), 2, cs);
                        if let Some(i) = filters_in(ch).first() {
                            c.fmask[*i] = fm;
                        }
                        out.push(item(c, if th { Plan::full() } else { Plan::pb(2) }, CK_RESULT));
                    }
                }
            }
            out.extend(engine_e(
                &[Term::Find, Term::First, Term::Any, Term::All, Term::FindIdx, Term::FirstIdx],
                CK_RESULT,
                tier,
                &[0, 1, 0b1000, 0b1010, u64::MAX],
                &[],
            ));
        }
        // reduce family
        "C03" => {
            let kernels = ["", "M", "MF", "O", "OF", "XF"];
            for (src, known) in [(Src::SVec, true), (Src::SIter, false)] {
                for ch in kernels {
                    for cs in [CsSet::N(1), CsSet::N(2), CsSet::N(3)] {
                        for rk in 0..4u8 {
                            let n = 4;
                            let mut c = par(case(src, n, ch, Term::Reduce), 2, cs);
                            c.known = known;
                            c.red_kind = rk;
                            if rk == 0 {
                                for mc in mask_variants(&c, true) {
                                    out.push(item(mc, Plan::full(), CK_RESULT));
                                }
                            } else {
                                out.push(item(c, Plan::pb(1), CK_RESULT));
                            }
                        }
                        // all filter masks (incl. nothing survives / one worker gets everything)
                        if src == Src::SVec && !filters_in(ch).is_empty() {
                            let c = par(case(src, 4, ch, Term::Reduce), 2, cs);
                            for mc in all_first_filter_masks(&c, 4) {
                                out.push(item(mc, Plan::pb(if th { 2 } else { 1 }), CK_RESULT));
                            }
                            // longer inputs: whole chunks rejected before, between and after chunks with survivors
                            if cs != CsSet::N(1) {
                                for w in [2usize, 3] {
                                    let c6 = par(case(src, 6, ch, Term::Reduce), w, cs);
                                    for mc in all_first_filter_masks(&c6, 6) {
                                        out.push(item(mc.clone(), Plan::base_rr(), CK_RESULT));
                                        if th || w == 2 {
                                            out.push(item(mc, Plan::pb(1), CK_RESULT));
                                        }
                                    }
                                }
                            }
                        }
                        let c3 = par(case(src, 6, ch, Term::Reduce), 3, cs);
                        for mc in mask_variants(&c3, false) {
                            out.push(item(mc.clone(), Plan::pb(if th { 2 } else { 1 }), CK_RESULT));
                            out.push(item(mc, Plan::db(2), CK_RESULT));
                        }
                    }
                }
            }
            // provided wrappers on one chain per builder type
            for src in [Src::SVec, Src::PVec] {
                for cid in chains::TOK_SUBSET {
                    if !src.supports(cid) {
                        continue;
                    }
                    for t in [Term::Fold, Term::Sum, Term::Min, Term::Max, Term::MinBy, Term::MaxBy, Term::MinByKey, Term::MaxByKey, Term::MinTie, Term::MaxTie] {
                        for n in [0usize, 1, 4] {
                            for (w, cs) in [(2, CsSet::N(1)), (3, CsSet::N(2)), (1, CsSet::Keep)] {
                                let c = par(case(src, n, chains::CHAINS[cid], t), w, cs);
                                for mc in mask_variants(&c, false) {
                                    out.push(item(mc.clone(), Plan::pb(1), CK_RESULT));
                                    out.push(item(mc, Plan::db(1), CK_RESULT));
                                }
                            }
                        }
                    }
                }
            }
            out.extend(engine_lag(&[Term::Reduce], CK_RESULT, tier, &KC));
            out.extend(expansion_sweep(&[Term::Reduce], CK_RESULT, tier, false));
            out.extend(engine_big(&[Term::Reduce], CK_RESULT, tier, &["", "M", "MF", "OF", "XF"]));
            out.extend(engine_huge(&[Term::Reduce], CK_RESULT, tier, &["", "MF", "OF", "XF"]));
            out.extend(engine_bigitem(&[Term::Reduce], CK_RESULT, tier, &["", "M", "F", "X", "O"]));
            out.extend(engine_prestate(&[Term::Reduce], CK_RESULT, tier));
            out.extend(engine_longexp(&[Term::Reduce], CK_RESULT, tier));
            out.extend(engine_clock(&[Term::Reduce], CK_RESULT, tier, &["", "M", "MF", "OF", "XF"]));
            out.extend(engine_fine(&[Term::Reduce], CK_RESULT, tier, &["", "M", "MF", "OF", "XF"]));
            out.extend(engine_e(&[Term::Reduce], CK_RESULT, tier, &[], &[0, 1, 2, 3]));
        }
        // count / for_each
        "C04" => {
            let kernels: Vec<&str> = KC.to_vec();
            out.extend(engine_s(&[Term::Count, Term::ForEach], CK_RESULT, tier, &kernels, true));
            out.extend(engine_lag(&[Term::Count], CK_RESULT, tier, &KC));
            out.extend(expansion_sweep(&[Term::Count, Term::ForEach], CK_RESULT, tier, false));
            out.extend(engine_big(&[Term::Count], CK_RESULT, tier, &["", "M", "MF", "OF", "XF"]));
            out.extend(engine_huge(&[Term::Count, Term::ForEach], CK_RESULT, tier, &["M", "MF", "OF", "XF"]));
            out.extend(engine_bigitem(&[Term::Count, Term::ForEach], CK_RESULT, tier, &["M", "F", "X", "O"]));
            out.extend(engine_prestate(&[Term::Count, Term::ForEach], CK_RESULT, tier));
            out.extend(engine_longexp(&[Term::Count, Term::ForEach], CK_RESULT, tier));
            out.extend(engine_clock(&[Term::Count, Term::ForEach], CK_RESULT, tier, &["", "M", "F", "MF", "OF", "XF"]));
            // more elements than a 32-bit counter holds: closure-free count over 1..2^31+10 (thorough: 2^32+10)
            for e in [31usize, 32] {
                if e == 32 && !th {
                    continue;
                }
                for (w, cs) in [(2usize, CsSet::Keep), (3, CsSet::N(1 << 20))] {
                    if !th && w == 3 {
                        continue; // one execution takes about a minute
                    }
                    let mut c = par(case(Src::PRangeBig, 0, "", Term::Count), w, cs);
                    c.spare = e;
                    c.quiet = true;
                    out.push(item(c, Plan::base_rr().with_horizon(4_000_000), CK_RESULT));
                }
            }
            out.extend(engine_fine(&[Term::Count, Term::ForEach], CK_RESULT, tier, &["", "M", "MF", "OF", "XF"]));
            out.extend(engine_e(&[Term::Count, Term::ForEach], CK_RESULT, tier, &[], &[]));
        }
        // closures exactly once; by-value source exclusive
        "C05" => {
            let ck = CK_CALLS | CK_SOURCE;
            let full_visit = [Term::CollectVec, Term::Collect, Term::CollectX, Term::Count, Term::Reduce, Term::ForEach];
            let kernels: Vec<&str> = if th { KC[1..].to_vec() } else { vec!["M", "MF", "F", "OF", "XF"] };
            out.extend(engine_s(&full_visit, ck, tier, &kernels, false));
            out.extend(engine_s(&[Term::Find, Term::Any], ck, tier, &["", "M", "MF", "OF", "XF"], false));
            out.extend(engine_lag(&[Term::CollectVec, Term::Count, Term::Reduce], ck, tier, &["M", "MF", "OF", "XF"]));
            out.extend(engine_huge(&[Term::CollectVec, Term::Count, Term::CollectX], ck, tier, &["M", "MF", "XF"]));
            out.extend(engine_bigitem(&[Term::CollectVec, Term::Reduce], ck, tier, &["M", "F", "X", "O"]));
            out.extend(engine_prestate(&[Term::CollectVec, Term::Count, Term::Find], ck, tier));
            out.extend(engine_longexp(&[Term::CollectVec, Term::Count, Term::Reduce], ck, tier));
            out.extend(engine_clock(&[Term::CollectVec, Term::Count, Term::ForEach, Term::Reduce, Term::CollectX], ck, tier, &["M", "F", "MF", "OF", "XF"]));
            out.extend(engine_fine(&[Term::CollectVec, Term::Count, Term::Reduce, Term::CollectX, Term::Find], ck, tier, &["M", "MF", "OF", "XF"]));
            out.extend(engine_e(&[Term::CollectVec, Term::Count, Term::Reduce, Term::CollectX, Term::Find], ck, tier, &[0b0100, 0], &[0]));
            // exclusivity: scheduling points *inside* the source iterator's next()
            for src in [Src::SIter, Src::PIter] {
                for known in [false, true] {
                    for (ch, t) in [("M", Term::CollectVec), ("MF", Term::CollectVec), ("M", Term::Count), ("MF", Term::Reduce), ("", Term::Find), ("XF", Term::CollectX), ("OF", Term::Count)] {
                        for cs in [CsSet::N(1), CsSet::N(2)] {
                            let mut c = par(case(src, 3, ch, t), 2, cs);
                            c.known = known;
                            c.spoints = true;
                            c.pmask = 0b100;
                            if src == Src::SIter {
                                out.push(item(c.clone(), if th { Plan::full().with_cap(400_000) } else { Plan::pb(2) }, ck));
                            } else {
                                out.push(item(c.clone(), Plan::pb(2), ck));
                            }
                            let mut c3 = par(case(src, 4, ch, t), 3, cs);
                            c3.known = known;
                            c3.spoints = true;
                            c3.pmask = 0b100;
                            out.push(item(c3.clone(), Plan::pb(if th { 2 } else { 1 }), ck));
                            out.push(item(c3, Plan::db(2), ck));
                        }
                    }
                }
            }
        }
        // collect_into appends
        "C06" => {
            let targets = [Term::IntoVec, Term::IntoSplitD, Term::IntoSplitL, Term::IntoFixed];
            for (src, known) in [(Src::SVec, true), (Src::SIter, false), (Src::SIter, true), (Src::PVec, true), (Src::PIter, false), (Src::SSlice, true), (Src::PRange, true)] {
                for ch in KC {
                    if !src.supports(chains::CHAINS.iter().position(|c| *c == ch).unwrap()) {
                        continue;
                    }
                    for t in targets {
                        for (pre, spare) in [(1usize, 0usize), (3, 0), (3, 8), (0, 0)] {
                            for n in [0usize, 1, 3] {
                                for (w, cs) in [(2, CsSet::N(1)), (2, CsSet::N(2)), (1, CsSet::Keep), (3, CsSet::Auto)] {
                                    let mut c = par(case(src, n, ch, t), w, cs);
                                    c.known = known;
                                    c.prefix = pre;
                                    c.spare = spare;
                                    for mc in mask_variants(&c, false) {
                                        out.push(item(mc.clone(), Plan::base_np(), CK_RESULT));
                                        if w > 1 {
                                            out.push(item(mc.clone(), Plan::db(if th { 2 } else { 1 }), CK_RESULT));
                                        }
                                        if w == 2 && n == 3 && pre == 1 && (th || src.wrapped()) {
                                            out.push(item(mc, if th && src.wrapped() { Plan::full() } else { Plan::pb(1) }, CK_RESULT));
                                        }
                                    }
                                }
                            }
                        }
                    }
                }
            }
            // targets filled up to (and around) a fragment / capacity boundary
            for (src, known) in [(Src::SVec, true), (Src::PVec, true), (Src::SIter, true), (Src::SIter, false)] {
                for ch in ["M", "MF", "", "XF"] {
                    for (t, pres) in [
                        (Term::IntoSplitD, vec![3usize, 4, 5, 11, 12, 13, 27, 28, 29, 59, 60, 61]),
                        (Term::IntoSplitL2, vec![3, 4, 5, 7, 8, 9, 15, 16, 17, 20]),
                        (Term::IntoFixed, vec![4, 8, 16]),
                        (Term::IntoVec, vec![4, 8, 16]),
                    ] {
                        if t == Term::IntoSplitL2 && !known {
                            continue;
                        }
                        for pre in pres {
                            for n in [0usize, 1, 2, 5] {
                                for (w, cs) in [(2usize, CsSet::N(1)), (3, CsSet::Keep), (1, CsSet::Keep)] {
                                    let mut c = par(case(src, n, ch, t), w, cs);
                                    c.known = known;
                                    c.prefix = pre;
                                    c.spare = 0;
                                    out.push(item(c.clone(), Plan::base_np(), CK_RESULT));
                                    if w > 1 {
                                        out.push(item(c, Plan::base_rr(), CK_RESULT));
                                    }
                                }
                            }
                        }
                    }
                }
            }
            // very long inputs into a non-empty target: capacity / fragment reservations of the targets (the
            // reservation for a source of unknown length is made before the workers start)
            for t in targets {
                for (ch, src, known, n) in [("M", Src::SIter, false, 700_000usize), ("M", Src::SVec, true, 400_000), ("MF", Src::SIter, false, 400_000), ("XF", Src::SVec, true, 400_000)] {
                    if !th && t == Term::IntoSplitL && ch != "M" {
                        continue;
                    }
                    let mut c = case(src, 0, ch, t);
                    c.input = (0..n).map(|i| i as u8).collect();
                    c.known = known;
                    c.nt[0] = NtSet::Max(2);
                    c.cs[0] = CsSet::N(1024);
                    c.prefix = 3;
                    out.push(item(c, Plan::base_rr().with_horizon(4_000_000), CK_RESULT));
                }
            }
            // sources in a particular state x targets with room for the whole input x long inputs
            for src in [Src::PConVecPre, Src::PConSlicePre, Src::PConRangePre, Src::PConIterPre, Src::PDeque] {
                for ch in ["", "M", "F"] {
                    for t in [Term::IntoVec, Term::IntoFixed, Term::IntoSplitD] {
                        let cid = chains::CHAINS.iter().position(|c| *c == ch).unwrap();
                        if !term_ok(src, cid, t) {
                            continue;
                        }
                        for n in [300usize, 9000] {
                            for spare in [0usize, 1, 9100] {
                                for (w, cs) in [(2usize, CsSet::N(64)), (3, CsSet::Keep)] {
                                    if !th && n == 300 && w == 3 {
                                        continue;
                                    }
                                    let mut c = par(case(src, 0, ch, t), w, cs);
                                    c.input = (0..n).map(|i| i as u8).collect();
                                    c.prefix = 3;
                                    c.spare = spare;
                                    c.cp_limit = 4;
                                    out.push(item(c, Plan::base_rr().with_horizon(400_000), CK_RESULT));
                                }
                            }
                        }
                    }
                }
            }
            // more than 2^22 survivors merged into a non-empty target
            for (ch, t) in [("MF", Term::IntoVec), ("F", Term::IntoFixed)] {
                if !th && t == Term::IntoFixed {
                    continue;
                }
                let mut c = par(case(Src::SVec, 0, ch, t), 2, CsSet::N(4096));
                c.input = (0..4_400_000usize).map(|i| i as u8).collect();
                c.prefix = 3;
                out.push(item(c, Plan::base_rr().with_horizon(4_000_000), CK_RESULT));
            }
            // offset writes of the map-only kernel, every interleaving
            for t in targets {
                for cs in [CsSet::N(1), CsSet::N(2)] {
                    for (pre, n) in [(1usize, 3usize), (2, 3), (1, 4), (2, 4), (3, 5)] {
                        for (src, known) in [(Src::SVec, true), (Src::SIter, false)] {
                            if src == Src::SIter && n > 3 {
                                continue;
                            }
                            let mut c = par(case(src, n, "M", t), 2, cs);
                            c.known = known;
                            c.prefix = pre;
                            out.push(item(c, Plan::full(), CK_RESULT));
                        }
                    }
                }
            }
        }
        // collect_x permutation
        "C07" => {
            let kernels: Vec<&str> = KC.to_vec();
            out.extend(engine_s(&[Term::CollectX], CK_RESULT, tier, &kernels, true));
            // duplicates
            for ch in KC {
                for cs in [CsSet::N(1), CsSet::N(2)] {
                    for inp in [vec![0u8, 1, 0, 1], vec![2, 2, 2, 2], vec![0, 0, 1]] {
                        let mut c = par(case(Src::SVec, 0, ch, Term::CollectX), 2, cs);
                        c.input = inp;
                        for mc in mask_variants(&c, false) {
                            out.push(item(mc, Plan::full(), CK_RESULT));
                        }
                    }
                }
            }
            out.extend(engine_lag(&[Term::CollectX], CK_RESULT, tier, &KC));
            out.extend(expansion_sweep(&[Term::CollectX], CK_RESULT, tier, false));
            out.extend(engine_big(&[Term::CollectX], CK_RESULT, tier, &["M", "MF", "OF", "XF"]));
            out.extend(engine_huge(&[Term::CollectX], CK_RESULT, tier, &["M", "MF", "OF", "XF"]));
            out.extend(engine_bigitem(&[Term::CollectX], CK_RESULT, tier, &["M", "F", "X", "O"]));
            out.extend(engine_prestate(&[Term::CollectX], CK_RESULT, tier));
            out.extend(engine_longexp(&[Term::CollectX], CK_RESULT, tier));
            out.extend(engine_clock(&[Term::CollectX], CK_RESULT, tier, &["M", "MF", "OF", "XF"]));
            out.extend(engine_fine(&[Term::CollectX], CK_RESULT, tier, &KC));
            out.extend(engine_e(&[Term::CollectX], CK_RESULT, tier, &[], &[]));
        }
        // Max(n) bounds concurrency
        "C08" => {
            let ck = CK_THREADS;
            let progs: [(&str, Term); 9] = [
                ("M", Term::CollectVec),  // Runner::run
                ("MF", Term::CollectVec), // Runner::run_map
                ("M", Term::Reduce),      // Runner::reduce
                ("MF", Term::Count),
                ("", Term::Find),
                ("XF", Term::CollectX),
                ("FX", Term::CollectVec),  // eager stage, num_threads set on the source
                ("XFM", Term::Count),      // eager stage
                ("OF", Term::ForEach),
            ];
            for (ch, t) in progs {
                for n in [1usize, 2, 3] {
                    let lens: Vec<usize> = vec![n.saturating_sub(1), n, n + 1, 2 * n + 1];
                    for len in lens {
                        for (cs, src, known) in [(CsSet::N(1), Src::SVec, true), (CsSet::N(2), Src::SVec, true), (CsSet::N(1), Src::SIter, false), (CsSet::N(2), Src::SIter, true)] {
                            if !Src::SIter.supports(chains::CHAINS.iter().position(|c| *c == ch).unwrap()) && src == Src::SIter {
                                continue;
                            }
                            let mut c = par(case(src, len, ch, t), n, cs);
                            c.known = known;
                            c.cpoints = true;
                            c.pmask = 1 << (len.saturating_sub(1));
                            match n {
                                1 => out.push(item(c, Plan::base_np(), ck | CK_RESULT)),
                                2 => {
                                    // three threads inside closures at once need two preemptions
                                    if th {
                                        out.push(item(c, Plan::pb(3).with_cap(400_000), ck));
                                    } else if len <= 3 && cs == CsSet::N(1) {
                                        out.push(item(c, Plan::pb(2), ck));
                                    } else {
                                        out.push(item(c.clone(), Plan::pb(1), ck));
                                        out.push(item(c, Plan::db(2), ck));
                                    }
                                }
                                _ => {
                                    if th {
                                        out.push(item(c.clone(), Plan::pb(2).with_cap(400_000), ck));
                                    } else if len <= 4 {
                                        out.push(item(c.clone(), Plan::pb(1), ck));
                                    }
                                    out.push(item(c, Plan::db(2), ck));
                                }
                            }
                        }
                    }
                }
            }
            // more than 4 workers: the spawn loop goes through a second round after the lag period
            for (ch, t) in progs {
                for n in [5usize, 6, 7, 8] {
                    for len in [24usize, 40] {
                        for (cs, src, known) in [(CsSet::N(1), Src::SVec, true), (CsSet::Min(1), Src::SVec, true), (CsSet::N(1), Src::SIter, false)] {
                            if !th && ((n == 5 || n == 8) && len == 40) {
                                continue;
                            }
                            if !Src::SIter.supports(chains::CHAINS.iter().position(|c| *c == ch).unwrap()) && src == Src::SIter {
                                continue;
                            }
                            let mut c = par(case(src, len, ch, t), n, cs);
                            c.known = known;
                            c.pmask = 1 << 30;
                            // no closure points: pulls are the points, thread ids come from the call log
                            out.push(item(c.clone(), Plan::base_rr(), ck));
                            out.push(item(c.clone(), Plan::db(1), ck));
                            out.push(item(c.clone(), Plan::base_rr().with_slow0(2), ck));
                            if th {
                                out.push(item(c, Plan::db(2).with_cap(30_000), ck));
                            }
                        }
                    }
                }
            }
            // 10 .. 16 workers: three and four lag periods
            for (ch, t) in &progs[..4] {
                for n in [10usize, 12, 16] {
                    for len in [64usize, 100] {
                        for (cs, src, known) in [(CsSet::N(1), Src::SVec, true), (CsSet::Min(1), Src::SVec, true), (CsSet::N(1), Src::SIter, false)] {
                            if !th && (len == 100 && n != 12) {
                                continue;
                            }
                            let mut c = par(case(src, len, ch, *t), n, cs);
                            c.known = known;
                            c.pmask = 1 << 60;
                            out.push(item(c.clone(), Plan::base_rr(), ck));
                            out.push(item(c.clone(), Plan::base_rr().with_slow0(2), ck));
                            if th {
                                out.push(item(c, Plan::db(1), ck));
                            }
                        }
                    }
                }
            }
            // very long inputs: spawning decisions that look at the input length
            for (ch, t) in &progs[..4] {
                for n in [2usize, 3] {
                    for (src, known) in [(Src::SVec, true), (Src::SIter, false)] {
                        if !th && src == Src::SIter && n == 3 {
                            continue;
                        }
                        let mut c = case(src, 0, ch, *t);
                        c.input = (0..400_000usize).map(|i| i as u8).collect();
                        c.known = known;
                        c.nt[0] = NtSet::Max(n);
                        c.cs[0] = CsSet::N(1024);
                        out.push(item(c, Plan::base_rr().with_horizon(4_000_000), ck | CK_RESULT));
                    }
                }
            }
            // Max(1) on every terminal / public sources: nothing spawned, everything on the caller
            for (src, cid) in all_units() {
                if is_lite(cid) && !th {
                    continue;
                }
                for t in [Term::CollectVec, Term::Collect, Term::CollectX, Term::IntoVec, Term::Count, Term::ForEach, Term::Reduce, Term::Find, Term::First, Term::Any, Term::All, Term::FindIdx, Term::Fold, Term::MinByKey, Term::Max] {
                    if !term_ok(src, cid, t) {
                        continue;
                    }
                    let mut c = case(src, 3, chains::CHAINS[cid], t);
                    c.nt[0] = NtSet::N(1);
                    c.pmask = 0b100;
                    out.push(item(c, Plan::base_np(), ck));
                }
            }
        }
        // sequential mode == std
        "C09" => {
            let ck = CK_RESULT | CK_CALLSEQ | CK_THREADS | CK_EARLY;
            out.extend(expansion_sweep(&[Term::CollectVec, Term::First, Term::Find, Term::Count, Term::Reduce, Term::CollectX], ck, tier, true));
            let terms = [
                Term::CollectVec, Term::Collect, Term::CollectX, Term::IntoVec, Term::IntoSplitD, Term::IntoSplitL, Term::IntoFixed, Term::Count, Term::ForEach, Term::Reduce, Term::Find,
                Term::First, Term::Any, Term::All, Term::FindIdx, Term::FirstIdx, Term::Fold, Term::Sum, Term::Min, Term::Max, Term::MinBy, Term::MaxBy, Term::MinByKey, Term::MaxByKey, Term::MinTie, Term::MaxTie,
            ];
            for (src, cid) in all_units() {
                let full_src = matches!(src, Src::SVec | Src::SIter | Src::PVec | Src::PIter);
                for inp in inputs(if full_src { 4 } else { 3 }, src == Src::SVec) {
                    for t in terms {
                        if !term_ok(src, cid, t) {
                            continue;
                        }
                        for cs in [CsSet::Keep, CsSet::N(1), CsSet::N(2), CsSet::Min(3)] {
                            if !full_src && cs != CsSet::Keep && cs != CsSet::N(2) {
                                continue;
                            }
                            let mut c = case(src, 0, chains::CHAINS[cid], t);
                            c.input = inp.clone();
                            c.nt[0] = NtSet::N(1);
                            c.cs[0] = cs;
                            if t.is_collect_into() {
                                c.prefix = 2;
                            }
                            for known in [true, false] {
                                if !matches!(src, Src::SIter | Src::PIter) && !known {
                                    continue;
                                }
                                c.known = known;
                                for mc in mask_variants(&c, th) {
                                    let pms: Vec<u64> = if t.uses_pred() { vec![0, 1, 0b0100, 0b1010, u64::MAX] } else { vec![u64::MAX] };
                                    for pm in pms {
                                        let rks: Vec<u8> = if matches!(t, Term::Reduce | Term::Fold) { vec![0, 4] } else { vec![0] };
                                        for rk in rks {
                                            let mut c2 = mc.clone();
                                            c2.pmask = pm;
                                            c2.red_kind = rk;
                                            out.push(item(c2, Plan::base_np(), ck));
                                        }
                                    }
                                }
                            }
                        }
                    }
                }
            }
        }
        // early exit
        "C10" => {
            let ck = CK_EARLY | CK_RESULT;
            let kernels = ["", "M", "MF", "OF", "XF"];
            for ch in kernels {
                for cs in [CsSet::N(1), CsSet::N(2), CsSet::N(3)] {
                    for p in 0..6u32 {
                        for t in [Term::Find, Term::Any, Term::All] {
                            if t != Term::Find && (p % 2 == 1 || ch == "OF") {
                                continue;
                            }
                            // endless by-value source, two workers, every bounded-fair interleaving
                            let mut c = par(case(Src::SIter, 0, ch, t), 2, cs);
                            c.known = false;
                            c.endless = true;
                            c.pmask = if t == Term::All { !(1u64 << p) } else { 1u64 << p };
                            out.push(item(c.clone(), fair(if th { Plan::full().with_cap(500_000) } else { Plan::pb(2) }, 2), ck));
                            // three workers
                            let mut c3 = c.clone();
                            c3.nt[0] = NtSet::Max(3);
                            out.push(item(c3.clone(), fair(Plan::pb(if th { 2 } else { 1 }), 3), ck));
                            out.push(item(c3, fair(Plan::db(2), 3), ck));
                            // long finite sources of known length
                            let mut v = par(case(Src::SVec, 12, ch, t), 2, cs);
                            v.pmask = c.pmask;
                            out.push(item(v.clone(), Plan::pb(2), ck));
                            let mut v3 = v.clone();
                            v3.nt[0] = NtSet::Max(3);
                            out.push(item(v3, Plan::db(2), ck));
                        }
                    }
                    // `first` on an endless source
                    let mut c = par(case(Src::SIter, 0, ch, Term::First), 2, cs);
                    c.known = false;
                    c.endless = true;
                    if let Some(i) = filters_in(ch).first() {
                        c.fmask[*i] = 1 << 3;
                    }
                    out.push(item(c, fair(Plan::pb(2), 2), ck));
                }
            }
            // interleavings inside the pulls of the endless by-value source: skip_to_end races with a holder of the handle
            for ch in ["", "M", "OF"] {
                for cs in [CsSet::N(1), CsSet::N(2)] {
                    for p in [0u32, 1, 3] {
                        for w in [2usize, 3] {
                            let mut c = par(case(Src::SIter, 0, ch, Term::Find), w, cs);
                            c.known = false;
                            c.endless = true;
                            c.spoints = true;
                            c.pmask = 1u64 << p;
                            if w == 2 {
                                out.push(item(c.clone(), fair(Plan::pb(if th { 3 } else { 2 }), w), ck));
                            }
                            out.push(item(c, fair(Plan::db(2), w), ck));
                        }
                    }
                }
            }
            // unwrapped endless iterator through the public constructor
            for ch in ["", "M", "F"] {
                for t in [Term::Find, Term::Any, Term::First] {
                    for cs in [CsSet::N(1), CsSet::N(2), CsSet::Keep] {
                        for w in [2usize, 3] {
                            let mut c = par(case(Src::PIter, 0, ch, t), w, cs);
                            c.known = false;
                            c.endless = true;
                            c.pmask = 1 << 3;
                            if t == Term::First && ch == "F" {
                                c.fmask[0] = 1 << 2;
                            }
                            out.push(item(c.clone(), fair(Plan::pb(1), w), ck));
                            out.push(item(c, fair(Plan::db(1), w), ck));
                        }
                    }
                }
            }
            // sequential clause: nothing beyond the first match is evaluated (one-pass pipelines)
            for (src, cid) in all_units() {
                if chains::INFO[cid].2 != 0 || !matches!(src, Src::SVec | Src::SIter | Src::PVec | Src::PIter | Src::PRange | Src::PVecRef) {
                    continue;
                }
                for t in [Term::Find, Term::First, Term::Any, Term::All, Term::FindIdx, Term::FirstIdx] {
                    if !term_ok(src, cid, t) {
                        continue;
                    }
                    for pm in [0u64, 1, 0b10, 0b1000, 0b0110] {
                        let mut c = case(src, 4, chains::CHAINS[cid], t);
                        c.nt[0] = NtSet::N(1);
                        c.pmask = if t == Term::All { !pm } else { pm };
                        for mc in mask_variants(&c, false) {
                            out.push(item(mc, Plan::base_np(), ck));
                        }
                    }
                }
            }
            // more than 2^22 elements with drop glue behind the match (known length)
            for (ch, t) in [("", Term::Find), ("M", Term::Any), ("MF", Term::First), ("F", Term::Find)] {
                if !th && ch == "F" {
                    continue;
                }
                for (w, cs) in [(2usize, CsSet::N(64)), (3, CsSet::Keep)] {
                    let mut c = par(case(Src::SVec, 0, ch, t), w, cs);
                    c.input = (0..4_400_000usize).map(|i| i as u8).collect();
                    c.pred_pos = [1000, u32::MAX];
                    if let Some(i) = filters_in(ch).first() {
                        c.fmask[*i] = u64::MAX;
                    }
                    out.push(item(c, Plan::base_rr().with_horizon(400_000), ck));
                }
            }
            // a range whose end is usize::MAX used as an unbounded source
            for ch in ["", "M", "F"] {
                for t in [Term::Find, Term::Any, Term::First] {
                    for (w, cs) in [(2usize, CsSet::N(1)), (3, CsSet::N(1)), (4, CsSet::N(1)), (4, CsSet::N(2)), (3, CsSet::Keep)] {
                        let mut c = par(case(Src::PRangeMax, 0, ch, t), w, cs);
                        c.endless = true;
                        c.pmask = 1 << 3;
                        if t == Term::First && ch == "F" {
                            c.fmask[0] = 1 << 2;
                        }
                        out.push(item(c.clone(), fair(Plan::pb(1), w), ck));
                        out.push(item(c, fair(Plan::db(2), w), ck));
                    }
                }
            }
            // lazily produced flat_map expansions (a child exists only once `next()` asked for it), finite and endless:
            // the search stops *at* the match - an expansion that never ends always holds one. Sequential mode: exactly
            // the children a lazy std chain asks for; parallel mode: every worker ends (bounded-fair interleavings).
            for (src, cid) in all_units() {
                let ch = chains::CHAINS[cid];
                let nx = flatmaps_in(ch).len();
                if nx == 0 || chains::INFO[cid].2 != 0 || !matches!(src, Src::SVec | Src::SIter | Src::PVec | Src::PIter | Src::PVecRef) {
                    continue;
                }
                for t in [Term::Find, Term::First, Term::Any, Term::All] {
                    if !term_ok(src, cid, t) {
                        continue;
                    }
                    for mode in [1u8, 2] {
                        if mode == 2 && nx > 2 {
                            continue;
                        }
                        for pm in [1u64, 0b10, 0b1000, 0b0110, 1 << 40] {
                            let mut c = case(src, 4, ch, t);
                            c.nt[0] = NtSet::N(1);
                            c.pmask = if t == Term::All { !pm } else { pm };
                            c.exp_mode = mode;
                            for mc in mask_variants(&c, false) {
                                if mode == 2 && mc.expand != c.expand {
                                    continue; // the expansion vector is not used by endless expansions
                                }
                                out.push(item(mc, Plan::base_np(), ck));
                            }
                        }
                    }
                }
            }
            for ch in ["X", "XF", "XM", "MX", "FX", "OX", "XX", "XO"] {
                let cid = chains::CHAINS.iter().position(|c| *c == ch).unwrap();
                if chains::INFO[cid].2 != 0 {
                    continue;
                }
                for t in [Term::Find, Term::First, Term::Any, Term::All] {
                    for mode in [1u8, 2] {
                        for cs in [CsSet::N(1), CsSet::N(2)] {
                            for pm in [1u64 << 1, 1 << 5, 1 << 40] {
                                for (src, known) in [(Src::SVec, true), (Src::SIter, false)] {
                                    let mut c = par(case(src, 4, ch, t), 2, cs);
                                    c.known = known;
                                    c.pmask = if t == Term::All { !pm } else { pm };
                                    c.exp_mode = mode;
                                    out.push(item(c.clone(), fair(Plan::pb(2), 2), ck));
                                    let mut c3 = c.clone();
                                    c3.nt[0] = NtSet::Max(3);
                                    c3.input = (0..6).collect();
                                    out.push(item(c3, fair(Plan::db(2), 3), ck));
                                }
                            }
                        }
                    }
                }
            }
        }
        // Exact(c)
        "C11" => {
            let ck = CK_EXACT | CK_RESULT;
            out.extend(engine_bigitem(&[Term::CollectVec, Term::Reduce, Term::Find, Term::Count, Term::CollectX], ck, tier, &["", "M", "F", "X", "O"]));
            out.extend(engine_clock(&[Term::CollectVec, Term::Count, Term::Reduce], ck, tier, &["M", "MF", "XF"]));
            // many workers: workers are spawned after the first lag period
            // chunk sizes beyond 2^32 on a range of 2^40 elements (never materialised): `find` with a predicate that accepts
            // everything - each worker evaluates the first element of the chunk it was handed
            for cexp in [(1usize << 32) + 1024, (1 << 33) + 1, 1 << 32] {
                for w in [2usize, 3] {
                    let mut c = par(case(Src::PRangeBig, 0, "", Term::Find), w, CsSet::Exact(cexp));
                    c.spare = 40;
                    c.pmask = u64::MAX;
                    out.push(item(c.clone(), Plan::base_rr(), CK_EXACT));
                    out.push(item(c, Plan::db(1), CK_EXACT));
                }
            }
            let progs: [(&str, Term); 5] = [("M", Term::CollectVec), ("MF", Term::CollectVec), ("M", Term::Reduce), ("MF", Term::Count), ("XF", Term::CollectX)];
            for (ch, t) in progs {
                for w in [6usize, 7] {
                    for c in [1usize, 2, 3] {
                        // the growth / re-evaluation logic looks at done and remaining lengths after the first lag
                        // period: a dense range of input lengths around 4 workers x 2..8 chunks, plus longer inputs
                        let mut ns: Vec<usize> = (6 * c..=16 * c).collect();
                        ns.extend([20 * c, 24 * c, 30 * c + 1, 40 * c]);
                        for n in ns {
                            for (src, known) in [(Src::SVec, true), (Src::SIter, true), (Src::SIter, false)] {
                                if !th && (w == 7 || c == 3) && n % (2 * c) != 0 {
                                    continue;
                                }
                                if !th && src == Src::SIter && ch != "M" && n % c != 0 {
                                    continue;
                                }
                                let mut cs = par(case(src, n, ch, t), w, CsSet::Exact(c));
                                cs.known = known;
                                out.push(item(cs.clone(), Plan::base_np(), ck));
                                out.push(item(cs.clone(), Plan::db(1), ck));
                                out.push(item(cs.clone(), Plan::base_rr().with_slow0(2), ck));
                                if th {
                                    out.push(item(cs.clone(), Plan::db(1).with_slow0(2), ck));
                                    out.push(item(cs.clone(), Plan::db(2).with_cap(30_000), ck));
                                }
                            }
                        }
                    }
                }
            }
            // slow workers: several closure calls per element, each a scheduling point, so that the spawner takes
            // many steps between two pulls of a worker (the re-evaluation sees "a few elements left")
            for (ch, t) in [("MM", Term::CollectVec), ("MMM", Term::CollectVec), ("MF", Term::Count), ("MM", Term::Reduce)] {
                for w in [6usize, 7] {
                    for c in [2usize, 3] {
                        for n in (4 * c..=10 * c).chain([14 * c + 1]) {
                            if !th && w == 7 && n % 2 == 0 {
                                continue;
                            }
                            let mut cs = par(case(Src::SVec, n, ch, t), w, CsSet::Exact(c));
                            cs.cpoints = true;
                            out.push(item(cs.clone(), Plan::base_rr(), ck));
                            out.push(item(cs.clone(), Plan::db(1), ck));
                            if th {
                                out.push(item(cs.clone(), Plan::db(2).with_cap(30_000), ck));
                                out.push(item(cs.clone(), Plan::db(1).with_slow0(2), ck));
                            }
                        }
                    }
                }
            }
            // millions of elements (chunk sizes beyond 2^20): closure-free count over a range, and quiet map pipelines
            for (ch, t, quiet) in [("", Term::Count, false), ("M", Term::Count, true), ("M", Term::CollectVec, true), ("M", Term::Reduce, true)] {
                for c in [(1usize << 20) + 1, 1_500_000] {
                    for w in [6usize, 7] {
                        if !th && quiet {
                            continue; // 8 million instrumented closure calls take ~30 s: thorough tier only
                        }
                        // long enough for the workers spawned after the first lag period to obtain elements
                        let n = if quiet { 10 * c + 7 } else { 32 * c + 7 };
                        let mut cs = par(case(Src::SRange, 0, ch, t), w, CsSet::Exact(c));
                        cs.input = (0..n).map(|i| i as u8).collect();
                        cs.quiet = quiet;
                        out.push(item(cs.clone(), Plan::base_rr(), CK_EXACT));
                        out.push(item(cs.clone(), Plan::base_rr().with_slow0(2), CK_EXACT));
                        if !quiet {
                            out.push(item(cs.clone(), Plan::base_np(), CK_EXACT));
                            out.push(item(cs.clone(), Plan::base_rr().with_slow0(3), CK_EXACT));
                        }
                    }
                }
            }
            // few workers, every interleaving: all terminals / kernels
            for (src, known) in [(Src::SVec, true), (Src::SIter, false)] {
                for ch in KC {
                    for t in [Term::CollectVec, Term::Count, Term::Reduce, Term::CollectX, Term::Find, Term::ForEach] {
                        for (c, n) in [(1usize, 4usize), (2, 5), (3, 4), (2, 4), (5, 4)] {
                            let mut cs = par(case(src, n, ch, t), 2, CsSet::Exact(c));
                            cs.known = known;
                            cs.pmask = 1 << 2;
                            out.push(item(cs.clone(), if th { Plan::full() } else { Plan::pb(2) }, ck));
                            let mut c3 = par(case(src, n + 3, ch, t), 3, CsSet::N(c));
                            c3.known = known;
                            c3.pmask = 1 << 5;
                            if th {
                                out.push(item(c3.clone(), Plan::pb(2).with_cap(200_000), ck));
                            }
                            out.push(item(c3, Plan::db(2), ck));
                        }
                    }
                }
            }
            // unwrapped sources: block -> thread map from the first closure of the chain
            for src in [Src::PVec, Src::PIter, Src::PRange, Src::PVecRef, Src::PDeque] {
                for (ch, t) in [("M", Term::CollectVec), ("M", Term::Count), ("M", Term::Reduce)] {
                    for (c, n, w) in [(2usize, 7usize, 2usize), (3, 7, 3), (2, 12, 5)] {
                        let cs = par(case(src, n, ch, t), w, CsSet::Exact(c));
                        out.push(item(cs.clone(), Plan::base_np(), ck));
                        if th && w <= 3 {
                            out.push(item(cs.clone(), Plan::pb(1), ck));
                        }
                        out.push(item(cs, Plan::db(2), ck));
                    }
                }
            }
        }
        // parameters propagate
        "C12" => {
            let ck = CK_PARAMS;
            let nts = [NtSet::Keep, NtSet::N(0), NtSet::N(1), NtSet::N(2), NtSet::N(5), NtSet::Auto, NtSet::Max(1), NtSet::Max(2), NtSet::Max(usize::MAX)];
            let css = [CsSet::Keep, CsSet::N(0), CsSet::N(1), CsSet::N(2), CsSet::N(5), CsSet::Auto, CsSet::Min(1), CsSet::Min(3), CsSet::Exact(1), CsSet::Exact(4), CsSet::Min(usize::MAX), CsSet::Exact(usize::MAX)];
            let nts2 = [NtSet::Keep, NtSet::N(1), NtSet::N(2), NtSet::Auto];
            let css2 = [CsSet::Keep, CsSet::N(2), CsSet::Min(1), CsSet::Auto];
            for (src, cid) in all_units() {
                let full_src = matches!(src, Src::SVec | Src::SIter | Src::PVec);
                let np = chains::CHAINS[cid].len() + 1;
                let mk = |nt: [NtSet; 4], cs: [CsSet; 4], cf: bool| {
                    let mut c = case(src, 2, chains::CHAINS[cid], Term::Build);
                    c.nt = nt;
                    c.cs = cs;
                    c.cs_first = cf;
                    item(c, Plan::base_np(), ck)
                };
                out.push(mk([NtSet::Keep; 4], [CsSet::Keep; 4], false));
                // one position set, every value pair
                for p in 0..np {
                    for a in nts {
                        for b in css {
                            if !full_src && !(nts2.contains(&a) && css2.contains(&b)) {
                                continue;
                            }
                            let (mut nt, mut cs) = ([NtSet::Keep; 4], [CsSet::Keep; 4]);
                            nt[p] = a;
                            cs[p] = b;
                            out.push(mk(nt, cs, false));
                            if a != NtSet::Keep && b != CsSet::Keep {
                                out.push(mk(nt, cs, true));
                            }
                        }
                    }
                }
                if !full_src {
                    continue;
                }
                if th && src == Src::SVec {
                    // every assignment of the reduced value sets to every position: the full product
                    let total = 16usize.pow(np as u32);
                    for code in 0..total {
                        let (mut nt, mut cs) = ([NtSet::Keep; 4], [CsSet::Keep; 4]);
                        let mut k = code;
                        for p in 0..np {
                            nt[p] = nts2[k % 4];
                            cs[p] = css2[(k / 4) % 4];
                            k /= 16;
                        }
                        out.push(mk(nt, cs, false));
                    }
                } else {
                    // two positions set
                    for p in 0..np {
                        for q in (p + 1)..np {
                            for a in nts2 {
                                for b in css2 {
                                    for a2 in nts2 {
                                        for b2 in css2 {
                                            let (mut nt, mut cs) = ([NtSet::Keep; 4], [CsSet::Keep; 4]);
                                            nt[p] = a;
                                            cs[p] = b;
                                            nt[q] = a2;
                                            cs[q] = b2;
                                            out.push(mk(nt, cs, false));
                                        }
                                    }
                                }
                            }
                        }
                    }
                }
            }
            // the same walk on a worker thread of another parallel computation (the calling context of the constructors)
            for (src, cid) in all_units() {
                let np = chains::CHAINS[cid].len() + 1;
                for p in 0..=np {
                    for a in nts2 {
                        for b in css2 {
                            if p == np && !(a == NtSet::Keep && b == CsSet::Keep) {
                                continue;
                            }
                            let mut c = case(src, 2, chains::CHAINS[cid], Term::Build);
                            if p < np {
                                c.nt[p] = a;
                                c.cs[p] = b;
                            }
                            c.nested = true;
                            out.push(item(c, Plan::base_np(), ck));
                        }
                    }
                }
            }
        }
        // drops exactly once
        "C13" => {
            let ck = CK_DROPS | CK_RESULT;
            let terms = [
                Term::CollectVec, Term::Collect, Term::CollectX, Term::IntoVec, Term::IntoSplitD, Term::IntoFixed, Term::Count, Term::ForEach, Term::Reduce, Term::Find, Term::First, Term::Any, Term::All,
            ];
            for (src, known) in [(Src::SVec, true), (Src::SIter, false), (Src::SIter, true), (Src::PVec, true), (Src::PDeque, true), (Src::PIter, false)] {
                for ch in KC {
                    if !src.supports(chains::CHAINS.iter().position(|c| *c == ch).unwrap()) {
                        continue;
                    }
                    for t in terms {
                        for cs in [CsSet::N(1), CsSet::N(2)] {
                            let mut c = par(case(src, 4, ch, t), 2, cs);
                            c.known = known;
                            c.pmask = 0b0010; // find on a prefix: the rest is skipped
                            if t.is_collect_into() {
                                c.prefix = 2;
                                c.spare = 1;
                            }
                            let wrapped_full = src.wrapped() && (th || matches!(t, Term::CollectVec | Term::Find | Term::CollectX | Term::Reduce));
                            for mc in mask_variants(&c, false) {
                                out.push(item(mc.clone(), if wrapped_full { Plan::full() } else { Plan::pb(2) }, ck));
                                if t.uses_pred() {
                                    // several matches: more than one worker holds a candidate
                                    let mut m2 = mc.clone();
                                    m2.pmask = 0b1110;
                                    out.push(item(m2, if wrapped_full { Plan::full() } else { Plan::pb(2) }, ck));
                                }
                            }
                            let mut c3 = par(case(src, 6, ch, t), 3, cs);
                            c3.known = known;
                            c3.pmask = 0b001000;
                            if t.is_collect_into() {
                                c3.prefix = 1;
                            }
                            out.push(item(c3.clone(), Plan::pb(if th { 2 } else { 1 }), ck));
                            out.push(item(c3, Plan::db(2), ck));
                        }
                    }
                }
            }
            // every instantiated program x inputs of length 0..4 (single-element inputs = a single worker) x targets
            out.extend(engine_e(
                &[Term::CollectVec, Term::Collect, Term::CollectX, Term::IntoVec, Term::IntoSplitD, Term::IntoFixed, Term::Count, Term::Reduce, Term::Find, Term::First],
                ck,
                tier,
                &[0b0010, 0],
                &[0],
            ));
            out.extend(engine_lag(&[Term::CollectVec, Term::CollectX, Term::Find], ck, tier, &["M", "MF", "XF"]));
            out.extend(engine_big(&[Term::CollectVec, Term::Collect, Term::Find], ck, tier, &["MF", "XF"]));
            out.extend(engine_huge(&[Term::CollectVec, Term::Collect, Term::CollectX, Term::IntoSplitD, Term::Reduce, Term::Find], ck, tier, &["M", "MF", "OF", "XF"]));
            out.extend(engine_bigitem(&[Term::CollectVec, Term::Collect, Term::CollectX, Term::IntoVec, Term::Reduce, Term::Find], ck, tier, &["", "M", "F", "X", "O"]));
            out.extend(engine_prestate(&[Term::CollectVec, Term::CollectX, Term::Reduce, Term::Find], ck, tier));
            out.extend(engine_longexp(&[Term::CollectVec, Term::CollectX, Term::Reduce], ck, tier));
            out.extend(engine_clock(&[Term::CollectVec, Term::Count, Term::Find], ck, tier, &["M", "MF", "XF"]));
            {
                // more than 2^22 survivors merged into a non-empty Vec
                let mut c = par(case(Src::SVec, 0, "MF", Term::IntoVec), 2, CsSet::N(4096));
                c.input = (0..4_400_000usize).map(|i| i as u8).collect();
                c.prefix = 3;
                out.push(item(c, Plan::base_rr().with_horizon(4_000_000), ck));
            }
            out.extend(engine_fine(&[Term::CollectVec, Term::CollectX, Term::Find, Term::Reduce], ck, tier, &["M", "MF", "OF", "XF"]));
            // eager (materialising) chains and deeper chains, sequential and parallel
            for cid in 0..chains::N_CHAINS {
                for t in [Term::CollectVec, Term::Count, Term::Find, Term::Reduce, Term::CollectX] {
                    for (w, cs) in [(2usize, CsSet::N(1)), (1, CsSet::Keep), (3, CsSet::N(2))] {
                        let mut c = par(case(Src::SVec, 4, chains::CHAINS[cid], t), w, cs);
                        c.pmask = 0b0100;
                        for mc in mask_variants(&c, false) {
                            out.push(item(mc.clone(), Plan::base_np(), ck));
                            if w > 1 {
                                out.push(item(mc, Plan::db(if th { 2 } else { 1 }), ck));
                            }
                        }
                    }
                }
            }
        }
        // panicking closure
        "C14" => {
            let ck = CK_PANIC;
            let progs: Vec<(&str, Term)> = vec![
                ("M", Term::CollectVec), ("M", Term::Collect), ("M", Term::IntoVec), ("M", Term::IntoSplitD), ("M", Term::IntoFixed),
                ("MF", Term::CollectVec), ("MF", Term::Collect), ("MF", Term::IntoVec), ("OF", Term::CollectVec), ("XF", Term::CollectVec), ("XF", Term::Collect),
                ("M", Term::Count), ("MF", Term::Count), ("OF", Term::Count), ("XF", Term::Count),
                ("M", Term::Reduce), ("MF", Term::Reduce), ("OF", Term::Reduce), ("XF", Term::Reduce),
                ("M", Term::Find), ("MF", Term::Find), ("OF", Term::Find), ("XF", Term::Find),
                ("MF", Term::CollectX), ("OF", Term::CollectX), ("XF", Term::CollectX), ("M", Term::ForEach), ("MM", Term::CollectVec), ("FX", Term::CollectVec),
            ];
            for (src, known) in [(Src::SVec, true), (Src::SIter, false)] {
                for (ch, t) in &progs {
                    let n = 3usize;
                    let stages = ch.len();
                    for cs in [CsSet::N(1), CsSet::N(2)] {
                        // fault at every (stage, source element)
                        for s in 0..stages {
                            for p in 0..n {
                                let mut c = par(case(src, n, ch, *t), 2, cs);
                                c.known = known;
                                c.prefix = if t.is_collect_into() { 1 } else { 0 };
                                c.pmask = 1 << 2;
                                // the argument id of stage s for the element descending from source position p
                                let mut id = src_elem(&c.input, p).0;
                                for (k, kc) in ch.chars().enumerate().take(s) {
                                    if kc != 'F' {
                                        id = hcore::closures::label(k as u8, id, 0);
                                    }
                                }
                                c.fault = Some((s as u8, id));
                                let map_only_collect = *ch == "M" && t.is_collect_ordered();
                                if map_only_collect && src == Src::SVec {
                                    out.push(item(c, Plan::full(), ck));
                                } else {
                                    out.push(item(c.clone(), Plan::pb(if th { 2 } else { 1 }), ck));
                                    out.push(item(c, Plan::db(1), ck));
                                }
                            }
                        }
                        // faults in the predicate / the reduce operator
                        if t.uses_pred() {
                            let mut c = par(case(src, n, ch, *t), 2, cs);
                            c.known = known;
                            c.pmask = 0;
                            c.fault = Some((ST_PRED, ANY_ID));
                            out.push(item(c.clone(), Plan::pb(1), ck));
                            out.push(item(c, Plan::db(1), ck));
                        }
                        if *t == Term::Reduce {
                            let mut c = par(case(src, 4, ch, *t), 2, cs);
                            c.known = known;
                            c.fault = Some((ST_RED, ANY_ID));
                            out.push(item(c.clone(), Plan::pb(2), ck));
                            out.push(item(c, Plan::db(1), ck));
                        }
                    }
                    // every call of a stage panics: several workers panic in the same run
                    for (w, cs) in [(2usize, CsSet::N(1)), (3, CsSet::N(1)), (3, CsSet::N(2))] {
                        for st in 0..ch.len() {
                            let mut c = par(case(src, 5, ch, *t), w, cs);
                            c.known = known;
                            c.pmask = 1 << 4;
                            c.fault = Some((st as u8, hcore::closures::ALL_ID));
                            out.push(item(c.clone(), Plan::pb(1), ck));
                            out.push(item(c, Plan::db(1), ck));
                        }
                    }
                    // three workers: others keep writing while one unwinds
                    for (cs3, fpos) in [(CsSet::N(1), 2usize), (CsSet::N(2), 0), (CsSet::N(2), 3), (CsSet::N(1), 4)] {
                        if !th && !(fpos == 2 || fpos == 3) {
                            continue;
                        }
                        let mut c3 = par(case(src, 5, ch, *t), 3, cs3);
                        c3.known = known;
                        c3.fault = Some((0, src_elem(&c3.input, fpos).0));
                        out.push(item(c3.clone(), Plan::pb(if th { 2 } else { 1 }), ck));
                        out.push(item(c3.clone(), Plan::db(2), ck));
                        if th && src == Src::SVec && cs3 == CsSet::N(2) {
                            let mut c4 = c3.clone();
                            c4.input = (0..4).collect();
                            c4.fault = Some((0, src_elem(&c4.input, fpos.min(3)).0));
                            out.push(item(c4, Plan::full(), ck));
                        }
                    }
                }
            }
            // the payload of the panic is not a string: a &'static str and a value of a custom type (panic_any)
            for (ch, t) in &progs {
                for payload in [1u8, 2] {
                    for (w, cs) in [(2usize, CsSet::N(1)), (3, CsSet::N(2))] {
                        let mut c = par(case(Src::SVec, 4, ch, *t), w, cs);
                        c.pmask = 1 << 3;
                        c.fault = Some((0, src_elem(&c.input, 1).0));
                        c.fault_payload = payload;
                        out.push(item(c.clone(), Plan::pb(1), ck));
                        out.push(item(c.clone(), Plan::db(1), ck));
                        let mut s1 = c.clone();
                        s1.nt[0] = NtSet::N(1);
                        out.push(item(s1, Plan::base_np(), ck));
                    }
                }
            }
            // five and six workers: the spawner goes through a lag period while a worker unwinds
            for (src, known) in [(Src::SVec, true), (Src::SIter, false)] {
                for (ch, t) in &progs {
                    for w in [5usize, 6] {
                        for (cs, fpos) in [(CsSet::N(1), 1usize), (CsSet::N(1), 9), (CsSet::N(2), 4), (CsSet::Min(1), 2)] {
                            if !th && w == 6 && fpos != 1 {
                                continue;
                            }
                            let mut c = par(case(src, 24, ch, *t), w, cs);
                            c.known = known;
                            c.prefix = if t.is_collect_into() { 1 } else { 0 };
                            c.pmask = 0;
                            c.fault = Some((0, fpos as u64 + 1));
                            out.push(item(c.clone(), Plan::base_rr(), ck));
                            out.push(item(c.clone(), Plan::base_rr().with_slow0(2), ck));
                            out.push(item(c.clone(), Plan::base_rr().with_slow0(4), ck));
                            out.push(item(c, Plan::db(1), ck));
                        }
                    }
                }
            }
            // unbounded sources: the call must panic although the other workers could pull for ever
            for src in [Src::SIter, Src::PIter] {
                for ch in ["", "M", "MF", "OF", "XF"] {
                    for t in [Term::Find, Term::Any, Term::All, Term::First] {
                        for (w, cs) in [(2usize, CsSet::N(1)), (2, CsSet::N(2)), (3, CsSet::N(1))] {
                            let mut c = par(case(src, 0, ch, t), w, cs);
                            c.known = false;
                            c.endless = true;
                            let mut variants = Vec::new();
                            if t.uses_pred() {
                                // nothing matches, the predicate panics on the element at position 3
                                let mut a = c.clone();
                                a.pmask = if t == Term::All { u64::MAX } else { 0 };
                                a.fault = Some((ST_PRED, a.id_at_pred(3)));
                                variants.push(a);
                            }
                            if !ch.is_empty() {
                                // the first closure panics on the element at position 2; the only match is far behind it
                                let mut b = c.clone();
                                b.pmask = if t == Term::All { !(1u64 << 40) } else { 1 << 40 };
                                if let Some(i) = filters_in(ch).first() {
                                    b.fmask[*i] = 1 << 40;
                                }
                                b.fault = Some((0, 3));
                                variants.push(b);
                            }
                            for v in variants {
                                out.push(item(v.clone(), fair(Plan::pb(1), w), ck));
                                out.push(item(v, fair(Plan::db(1), w), ck));
                            }
                        }
                    }
                }
            }
            // long chunks: a fault in the middle and at the end of a chunk of 1024 / 2048 elements
            for (src, known) in [(Src::SVec, true), (Src::SIter, false)] {
                for (ch, t) in &progs {
                    if !th && matches!(t, Term::IntoSplitD | Term::IntoFixed | Term::ForEach) {
                        continue;
                    }
                    for cs in [CsSet::N(1024), CsSet::N(2048), CsSet::Keep] {
                        for fpos in [1500usize, 4999] {
                            if !th && cs == CsSet::N(2048) && fpos == 4999 {
                                continue;
                            }
                            let mut c = par(case(src, 0, ch, *t), 2, cs);
                            c.input = (0..5000usize).map(|i| i as u8).collect();
                            c.known = known;
                            c.prefix = if t.is_collect_into() { 1 } else { 0 };
                            c.pmask = 0;
                            c.fault = Some((0, fpos as u64 + 1));
                            out.push(item(c, Plan::base_rr().with_horizon(200_000), ck));
                        }
                    }
                }
            }
            // sequential mode: the panic propagates as well
            for (ch, t) in &progs {
                let mut c = case(Src::SVec, 3, ch, *t);
                c.nt[0] = NtSet::N(1);
                c.fault = Some((0, src_elem(&c.input, 1).0));
                out.push(item(c, Plan::base_np(), ck));
            }
        }
        // parameters never change a result
        "C15" => {
            let ck = CK_RESULT | CK_VS_SEQ;
            out.push(Item { case: case(Src::SVec, 0, "", Term::Build), plan: Plan::base_np(), checks: CK_FN_SWEEP });
            // (zero-sized outputs are judged in C01, where finding F9 is recorded)
            out.extend(engine_outtype(ck, tier, false));
            // sampled large lengths (300 .. 5000) with Auto / large / odd chunk sizes and up to 16 threads
            out.extend(engine_big(&[Term::CollectVec, Term::Count, Term::Find], ck, tier, if th { &["", "M", "MF", "OF", "XF"] } else { &["M", "MF", "XF"] }));
            let terms = [Term::CollectVec, Term::Collect, Term::CollectX, Term::IntoVec, Term::Count, Term::Reduce, Term::Find, Term::First, Term::ForEach, Term::Any];
            let ns: Vec<usize> = if th { vec![0, 1, 2, 3, 4, 5, 6, 7, 8, 33, 100] } else { vec![0, 1, 2, 3, 5, 8, 33] };
            let ws = [NtSet::Keep, NtSet::N(1), NtSet::N(2), NtSet::N(3), NtSet::N(5), NtSet::N(8), NtSet::Max(64)];
            for (src, known) in [(Src::SVec, true), (Src::SIter, false), (Src::SIter, true), (Src::PVec, true), (Src::PRange, true), (Src::PIter, false), (Src::SSlice, true)] {
                let main_src = matches!(src, Src::SVec | Src::SIter);
                for ch in ["", "M", "MF", "OF", "XF"] {
                    if !src.supports(chains::CHAINS.iter().position(|c| *c == ch).unwrap()) {
                        continue;
                    }
                    for n in &ns {
                        let n = *n;
                        if !main_src && !(n == 0 || n == 3 || n == 8) {
                            continue;
                        }
                        let mut cvals: Vec<usize> = (1..=10).collect();
                        cvals.extend([n.saturating_sub(1).max(1), n.max(1), n + 1, 64]);
                        let by_value = matches!(src, Src::SIter | Src::PIter);
                        if !by_value {
                            // sources that do not allocate per chunk
                            cvals.extend([1 << 20, usize::MAX / 2, usize::MAX / 2 + 1, usize::MAX]);
                        }
                        cvals.sort();
                        cvals.dedup();
                        let mut css = vec![CsSet::Keep];
                        for c in &cvals {
                            if !th && (*c > 4 && *c < 10) {
                                continue;
                            }
                            css.push(CsSet::Exact(*c));
                            css.push(CsSet::Min(*c));
                        }
                        for w in ws {
                            if !main_src && !matches!(w, NtSet::Keep | NtSet::N(2) | NtSet::N(5)) {
                                continue;
                            }
                            for cs in &css {
                                for t in terms {
                                    if !th && matches!(t, Term::Collect | Term::First | Term::Any | Term::ForEach) && !(n == 5) {
                                        continue;
                                    }
                                    let mut c = case(src, n, ch, t);
                                    c.known = known;
                                    c.nt[0] = w;
                                    c.cs[0] = *cs;
                                    c.pmask = 1 << (n / 2);
                                    c.prefix = if t == Term::IntoVec { 1 } else { 0 };
                                    if ch != "M" && ch != "" {
                                        let fs = filters_in(ch);
                                        c.fmask[fs[0]] = ALT2;
                                        if ch == "XF" {
                                            c.expand[0] = EXP_MIX;
                                        }
                                    }
                                    out.push(item(c.clone(), Plan::base_np(), ck));
                                    out.push(item(c.clone(), Plan::base_rr(), ck));
                                    if th && n <= 8 {
                                        out.push(item(c, Plan::db(1), ck));
                                    }
                                }
                            }
                        }
                    }
                }
            }
        }
        // laziness
        "C16" => {
            let ck = CK_LAZY;
            for (src, cid) in all_units() {
                for n in [0usize, 3] {
                    // build only, never run; and build + run (all work inside the terminal, under final params)
                    for t in [Term::Build, Term::Count] {
                        if !term_ok(src, cid, t) {
                            continue;
                        }
                        let settings: Vec<([NtSet; 4], [CsSet; 4])> = vec![
                            ([NtSet::Keep; 4], [CsSet::Keep; 4]),
                            ([NtSet::Max(2), NtSet::Keep, NtSet::Keep, NtSet::Keep], [CsSet::N(1), CsSet::Keep, CsSet::Keep, CsSet::Keep]),
                            ([NtSet::Keep, NtSet::Max(2), NtSet::Keep, NtSet::N(1)], [CsSet::Keep, CsSet::N(2), CsSet::Keep, CsSet::Keep]),
                            ([NtSet::Keep, NtSet::Keep, NtSet::Max(3), NtSet::Keep], [CsSet::Keep, CsSet::Keep, CsSet::Min(2), CsSet::Keep]),
                            ([NtSet::N(1), NtSet::Keep, NtSet::Keep, NtSet::Max(2)], [CsSet::Keep; 4]),
                        ];
                        for (nt, cs) in settings {
                            let mut c = case(src, n, chains::CHAINS[cid], t);
                            c.nt = nt;
                            c.cs = cs;
                            for known in [true, false] {
                                if !matches!(src, Src::SIter | Src::PIter) && !known {
                                    continue;
                                }
                                c.known = known;
                                out.push(item(c.clone(), Plan::base_np(), ck));
                            }
                        }
                    }
                }
            }
            // by-value iterators that announce 9 and 70 million elements, built and dropped: nothing may be pulled ahead
            // (a prefetch that depends on the announced length is not seen with short inputs)
            for src in [Src::PIter, Src::SIter, Src::PConIterPar] {
                for cid in [0usize, 1] {
                    if !src.supports(cid) || !term_ok(src, cid, Term::Build) {
                        continue;
                    }
                    for n in [9_000_000usize, 70_000_000] {
                        if n > 9_000_000 && !(th && cid == 0) {
                            continue;
                        }
                        let mut c = case(src, 0, chains::CHAINS[cid], Term::Build);
                        c.input = (0..n).map(|i| i as u8).collect();
                        c.known = true;
                        c.nt[0] = NtSet::Max(2);
                        out.push(item(c, Plan::base_np(), ck));
                    }
                }
            }
            // `copied()` / `cloned()` after another transformation (a logged filter inside the source constructor)
            for src in [Src::PFltCopied, Src::PFltCloned] {
                for cid in chains::SMALL {
                    for t in [Term::Build, Term::Count, Term::CollectVec] {
                        // (these sources start in builder state FilterMap, whose flat_map is one of the eight eager sites)
                        if !src.supports(cid) || !term_ok(src, cid, t) || chains::CHAINS[cid].contains('X') {
                            continue;
                        }
                        for (nt, cs) in [(NtSet::Keep, CsSet::Keep), (NtSet::Max(2), CsSet::N(1)), (NtSet::N(1), CsSet::Keep)] {
                            for n in [0usize, 3] {
                                let mut c = case(src, n, chains::CHAINS[cid], t);
                                c.nt[0] = nt;
                                c.cs[0] = cs;
                                out.push(item(c, Plan::base_np(), ck));
                            }
                        }
                    }
                }
            }
            // built (and run) on a worker thread of another parallel computation
            for (src, cid) in all_units() {
                for t in [Term::Build, Term::Count] {
                    if !term_ok(src, cid, t) {
                        continue;
                    }
                    for (nt, cs) in [(NtSet::Keep, CsSet::Keep), (NtSet::Max(2), CsSet::N(1)), (NtSet::N(1), CsSet::Keep)] {
                        let mut c = case(src, 3, chains::CHAINS[cid], t);
                        c.nt[0] = nt;
                        c.cs[0] = cs;
                        c.nested = true;
                        out.push(item(c, Plan::base_np(), ck));
                    }
                }
            }
        }
        _ => {}
    }
    out
}
