mod dispatch;

fn main() {
    hcore::glue::install();
    let case = hcore::case::Case::new(hcore::case::Src::SVec, 4, "MF", hcore::visit::Term::CollectVec);
    let obs = hcore::case::run_case(&case, &sched::Config::default(), &[], dispatch::body);
    println!("{:?}", obs.result);
}
