mod dispatch;
mod json;
mod oracle;
mod props;
mod runner;
mod selftest;
mod sidefile;

use hcore::case::Case;
use json::Obj;
use props::Tier;
use runner::{plan_from_str, run_item, Item};
use std::io::Write;

fn tier_of(s: &str) -> Tier {
    match s {
        "thorough" => Tier::Thorough,
        _ => Tier::Quick,
    }
}

fn weight(it: &Item) -> u64 {
    // rough relative cost (executions x threads), used only to balance work between processes
    let w = match it.case.nt[0] {
        hcore::settings::NtSet::Max(n) | hcore::settings::NtSet::N(n) => n.clamp(1, 16),
        _ => 4,
    } as u64;
    let n = it.case.input.len().max(1) as u64 + if it.case.endless { 8 } else { 0 };
    if it.plan.single {
        return 1 + w / 4 + n / 100;
    }
    let pts = if it.case.cpoints || it.case.spoints { 3 } else { 1 };
    let steps = n * pts + 4 * w;
    let execs = match (it.plan.order, it.plan.bound) {
        (_, None) => (steps * steps * w * w).min(400_000),
        (_, Some(0)) => 1,
        (sched::Order::Pb, Some(1)) => steps * w,
        (sched::Order::Pb, Some(_)) => steps * steps * w * w / 2,
        (sched::Order::Db, Some(1)) => steps,
        (sched::Order::Db, Some(_)) => steps * steps / 2,
    };
    let execs = if it.plan.max_execs > 0 { execs.min(it.plan.max_execs) } else { execs };
    1 + execs * (1 + w / 3)
}

fn main() {
    // worker threads of the library are spawned with the default stack size: 64 KiB items (tok::Big) moved by value
    // through unoptimised harness frames need more than the default 2 MiB (read once by std, before the first spawn)
    if std::env::var_os("RUST_MIN_STACK").is_none() {
        std::env::set_var("RUST_MIN_STACK", "67108864");
    }
    hcore::glue::install();
    sched::set_fatal_handler(runner::fatal_handler);
    std::panic::set_hook(Box::new(|info| {
        // injected faults and library panics are expected; only machinery panics are printed
        let msg = format!("{}", info);
        // panics of the harness' own code (not inside a library call under catch_unwind) must be visible
        let own = std::thread::current().name() == Some("main") && !msg.contains("injected fault") && sched::current_thread().is_none();
        if msg.contains("MACHINERY") || own {
            eprintln!("{}", msg);
        }
    }));
    let args: Vec<String> = std::env::args().collect();
    let par = std::thread::available_parallelism().map(|x| x.get()).unwrap_or(1);
    match args.get(1).map(|s| s.as_str()) {
        Some("list") => {
            // mc list <PROP> <tier>  -> one line: count and weights
            let items = props::items(&args[2], tier_of(&args[3]));
            let ws: Vec<String> = items.iter().map(|i| weight(i).to_string()).collect();
            println!("{}", Obj::new().s("prop", &args[2]).n("count", items.len() as u64).n("available_parallelism", par as u64).raw("weights", &json::arr(&ws)).build());
        }
        Some("run") => {
            // mc run <PROP> <tier> <sidefile> <idx,idx,...>
            if par < 8 {
                sched::machinery_error("available_parallelism < 8: configurations with 7 workers cannot be explored");
            }
            let prop = &args[2];
            let items = props::items(prop, tier_of(&args[3]));
            runner::ITEM_TIME_CAP_S.store(if tier_of(&args[3]) == Tier::Thorough { 600 } else { 60 }, std::sync::atomic::Ordering::Relaxed);
            sidefile::open(&args[4]);
            let mut agg = runner::Agg::default();
            for tok in args[5].split(',') {
                let (a, b) = match tok.split_once('-') {
                    Some((a, b)) => (a.parse::<usize>().unwrap(), b.parse::<usize>().unwrap()),
                    None => {
                        let a = tok.parse::<usize>().unwrap();
                        (a, a + 1)
                    }
                };
                for idx in a..b {
                    sidefile::set_idx(idx);
                    let r = run_item(prop, &items[idx]);
                    agg.absorb(prop, idx, &items[idx], &r);
                }
            }
            println!("{}", agg.to_json(prop));
            let _ = std::io::stdout().flush();
            println!("{}", Obj::new().s("type", "done").build());
        }
        Some("replay") => {
            // mc replay <case> <plan> <checks> <schedule>
            let case = Case::decode(&args[2]);
            let plan = plan_from_str(&args[3]);
            let checks: u32 = args[4].parse().unwrap();
            let schedule = runner::schedule_parse(&args[5]);
            let item = Item { case, plan, checks };
            let seq = if checks & runner::CK_VS_SEQ != 0 {
                let mut sc = item.case.clone();
                sc.nt = [hcore::settings::NtSet::N(1), hcore::settings::NtSet::Keep, hcore::settings::NtSet::Keep, hcore::settings::NtSet::Keep];
                Some(hcore::case::run_case(&sc, &item.plan.config(), &[], dispatch::body).result)
            } else {
                None
            };
            if checks & runner::CK_FN_SWEEP != 0 {
                let (n, vs) = oracle::fn_sweep();
                println!("fn sweep: {} evaluations", n);
                for v in &vs {
                    println!("VIOLATION-DETAIL key={} {}", v.key, v.what);
                }
                std::process::exit(if vs.is_empty() { 0 } else { 1 });
            }
            let obs = hcore::case::run_case(&item.case, &item.plan.config(), &schedule, dispatch::body);
            let vs = runner::judge(&item, &obs, seq.as_ref());
            println!("case     {}", item.case.encode());
            println!("plan     {}  schedule {}", item.plan.name(), runner::schedule_str(&obs.rec.choices()));
            println!("result   {:x?}", obs.result);
            println!("drops    {:?}", obs.drops);
            for l in runner::fmt_log(&obs.rec) {
                println!("  {}", l);
            }
            for v in &vs {
                println!("VIOLATION-DETAIL key={} {}", v.key, v.what);
            }
            std::process::exit(if vs.is_empty() { 0 } else { 1 });
        }
        Some("explore") => {
            // mc explore <case> <plan> [checks]
            let case = Case::decode(&args[2]);
            let plan = plan_from_str(&args[3]);
            let checks = args.get(4).map(|x| x.parse().unwrap()).unwrap_or(1);
            let item = Item { case, plan, checks };
            let t = std::time::Instant::now();
            let r = run_item("explore", &item);
            println!("{}", runner::result_json("explore", 0, &item, &r));
            eprintln!(
                "executions={} complete={} states={} edges={} outcomes={} nontrivial={} violations={} time={:?}",
                r.executions,
                r.complete,
                r.states,
                r.edges,
                r.outcomes,
                r.nontrivial,
                r.violations.len(),
                t.elapsed()
            );
        }
        Some("selftest") => {
            let ok = selftest::run();
            std::process::exit(if ok { 0 } else { 2 });
        }
        _ => {
            eprintln!("usage: mc list|run|replay|explore|selftest ...");
            std::process::exit(2);
        }
    }
}
