//! Drop-in replacements for `std::sync::atomic::*` and `std::sync::Mutex` whose every operation is a
//! scheduling point of the controlled scheduler. The checks compile a copy of /repo in which the paths
//! `std::sync::atomic` / `core::sync::atomic` / `std::sync::Mutex` are re-pointed here
//! (`tools/rewrite_repo.py`), so that synchronisation added to orx-parallel's *own* code is interleaved at
//! the level of its individual operations. Outside a controlled execution every point is a no-op.

pub use std::sync::atomic::{compiler_fence, fence, Ordering};

use sched::OpKind;

#[inline]
fn pt(code: i64) {
    let _ = sched::point(OpKind::User, 100 + code, 0);
}

macro_rules! atomic_int {
    ($name:ident, $std:ident, $t:ty) => {
        #[derive(Default)]
        pub struct $name(std::sync::atomic::$std);

        impl $name {
            pub const fn new(v: $t) -> Self {
                Self(std::sync::atomic::$std::new(v))
            }
            pub fn get_mut(&mut self) -> &mut $t {
                self.0.get_mut()
            }
            pub fn into_inner(self) -> $t {
                self.0.into_inner()
            }
            pub fn load(&self, o: Ordering) -> $t {
                pt(1);
                self.0.load(o)
            }
            pub fn store(&self, v: $t, o: Ordering) {
                pt(2);
                self.0.store(v, o)
            }
            pub fn swap(&self, v: $t, o: Ordering) -> $t {
                pt(3);
                self.0.swap(v, o)
            }
            pub fn compare_exchange(&self, c: $t, n: $t, s: Ordering, f: Ordering) -> Result<$t, $t> {
                pt(4);
                self.0.compare_exchange(c, n, s, f)
            }
            pub fn compare_exchange_weak(&self, c: $t, n: $t, s: Ordering, f: Ordering) -> Result<$t, $t> {
                pt(4);
                // no spurious failures under the controlled scheduler: one nondeterminism less
                self.0.compare_exchange(c, n, s, f)
            }
            pub fn fetch_add(&self, v: $t, o: Ordering) -> $t {
                pt(5);
                self.0.fetch_add(v, o)
            }
            pub fn fetch_sub(&self, v: $t, o: Ordering) -> $t {
                pt(5);
                self.0.fetch_sub(v, o)
            }
            pub fn fetch_and(&self, v: $t, o: Ordering) -> $t {
                pt(5);
                self.0.fetch_and(v, o)
            }
            pub fn fetch_nand(&self, v: $t, o: Ordering) -> $t {
                pt(5);
                self.0.fetch_nand(v, o)
            }
            pub fn fetch_or(&self, v: $t, o: Ordering) -> $t {
                pt(5);
                self.0.fetch_or(v, o)
            }
            pub fn fetch_xor(&self, v: $t, o: Ordering) -> $t {
                pt(5);
                self.0.fetch_xor(v, o)
            }
            pub fn fetch_max(&self, v: $t, o: Ordering) -> $t {
                pt(5);
                self.0.fetch_max(v, o)
            }
            pub fn fetch_min(&self, v: $t, o: Ordering) -> $t {
                pt(5);
                self.0.fetch_min(v, o)
            }
            pub fn fetch_update<F: FnMut($t) -> Option<$t>>(&self, s: Ordering, f: Ordering, mut g: F) -> Result<$t, $t> {
                let mut prev = self.load(f);
                while let Some(next) = g(prev) {
                    match self.compare_exchange(prev, next, s, f) {
                        x @ Ok(_) => return x,
                        Err(p) => prev = p,
                    }
                }
                Err(prev)
            }
            pub fn as_ptr(&self) -> *mut $t {
                self.0.as_ptr()
            }
        }

        impl From<$t> for $name {
            fn from(v: $t) -> Self {
                Self::new(v)
            }
        }

        impl std::fmt::Debug for $name {
            fn fmt(&self, f: &mut std::fmt::Formatter<'_>) -> std::fmt::Result {
                self.0.fmt(f)
            }
        }
    };
}

atomic_int!(AtomicUsize, AtomicUsize, usize);
atomic_int!(AtomicIsize, AtomicIsize, isize);
atomic_int!(AtomicU8, AtomicU8, u8);
atomic_int!(AtomicU16, AtomicU16, u16);
atomic_int!(AtomicU32, AtomicU32, u32);
atomic_int!(AtomicU64, AtomicU64, u64);
atomic_int!(AtomicI8, AtomicI8, i8);
atomic_int!(AtomicI16, AtomicI16, i16);
atomic_int!(AtomicI32, AtomicI32, i32);
atomic_int!(AtomicI64, AtomicI64, i64);

#[derive(Default)]
pub struct AtomicBool(std::sync::atomic::AtomicBool);

impl AtomicBool {
    pub const fn new(v: bool) -> Self {
        Self(std::sync::atomic::AtomicBool::new(v))
    }
    pub fn get_mut(&mut self) -> &mut bool {
        self.0.get_mut()
    }
    pub fn into_inner(self) -> bool {
        self.0.into_inner()
    }
    pub fn load(&self, o: Ordering) -> bool {
        pt(1);
        self.0.load(o)
    }
    pub fn store(&self, v: bool, o: Ordering) {
        pt(2);
        self.0.store(v, o)
    }
    pub fn swap(&self, v: bool, o: Ordering) -> bool {
        pt(3);
        self.0.swap(v, o)
    }
    pub fn compare_exchange(&self, c: bool, n: bool, s: Ordering, f: Ordering) -> Result<bool, bool> {
        pt(4);
        self.0.compare_exchange(c, n, s, f)
    }
    pub fn compare_exchange_weak(&self, c: bool, n: bool, s: Ordering, f: Ordering) -> Result<bool, bool> {
        pt(4);
        self.0.compare_exchange(c, n, s, f)
    }
    pub fn fetch_and(&self, v: bool, o: Ordering) -> bool {
        pt(5);
        self.0.fetch_and(v, o)
    }
    pub fn fetch_nand(&self, v: bool, o: Ordering) -> bool {
        pt(5);
        self.0.fetch_nand(v, o)
    }
    pub fn fetch_or(&self, v: bool, o: Ordering) -> bool {
        pt(5);
        self.0.fetch_or(v, o)
    }
    pub fn fetch_xor(&self, v: bool, o: Ordering) -> bool {
        pt(5);
        self.0.fetch_xor(v, o)
    }
    pub fn fetch_update<F: FnMut(bool) -> Option<bool>>(&self, s: Ordering, f: Ordering, mut g: F) -> Result<bool, bool> {
        let mut prev = self.load(f);
        while let Some(next) = g(prev) {
            match self.compare_exchange(prev, next, s, f) {
                x @ Ok(_) => return x,
                Err(p) => prev = p,
            }
        }
        Err(prev)
    }
}

impl From<bool> for AtomicBool {
    fn from(v: bool) -> Self {
        Self::new(v)
    }
}

impl std::fmt::Debug for AtomicBool {
    fn fmt(&self, f: &mut std::fmt::Formatter<'_>) -> std::fmt::Result {
        self.0.fmt(f)
    }
}

pub struct AtomicPtr<T>(std::sync::atomic::AtomicPtr<T>);

impl<T> Default for AtomicPtr<T> {
    fn default() -> Self {
        Self::new(std::ptr::null_mut())
    }
}

impl<T> AtomicPtr<T> {
    pub const fn new(p: *mut T) -> Self {
        Self(std::sync::atomic::AtomicPtr::new(p))
    }
    pub fn get_mut(&mut self) -> &mut *mut T {
        self.0.get_mut()
    }
    pub fn into_inner(self) -> *mut T {
        self.0.into_inner()
    }
    pub fn load(&self, o: Ordering) -> *mut T {
        pt(1);
        self.0.load(o)
    }
    pub fn store(&self, v: *mut T, o: Ordering) {
        pt(2);
        self.0.store(v, o)
    }
    pub fn swap(&self, v: *mut T, o: Ordering) -> *mut T {
        pt(3);
        self.0.swap(v, o)
    }
    pub fn compare_exchange(&self, c: *mut T, n: *mut T, s: Ordering, f: Ordering) -> Result<*mut T, *mut T> {
        pt(4);
        self.0.compare_exchange(c, n, s, f)
    }
    pub fn compare_exchange_weak(&self, c: *mut T, n: *mut T, s: Ordering, f: Ordering) -> Result<*mut T, *mut T> {
        pt(4);
        self.0.compare_exchange(c, n, s, f)
    }
}

impl<T> std::fmt::Debug for AtomicPtr<T> {
    fn fmt(&self, f: &mut std::fmt::Formatter<'_>) -> std::fmt::Result {
        self.0.fmt(f)
    }
}

/// `std::sync::Mutex` whose `lock` is a scheduling point and which never blocks the one running thread in the
/// OS: a contended lock is a visible busy-wait (`sched::spin`).
pub struct Mutex<T: ?Sized>(std::sync::Mutex<T>);

impl<T> Mutex<T> {
    pub const fn new(v: T) -> Self {
        Self(std::sync::Mutex::new(v))
    }
    pub fn into_inner(self) -> std::sync::LockResult<T> {
        self.0.into_inner()
    }
}

impl<T: ?Sized> Mutex<T> {
    pub fn lock(&self) -> std::sync::LockResult<std::sync::MutexGuard<'_, T>> {
        pt(6);
        loop {
            match self.0.try_lock() {
                Ok(g) => return Ok(g),
                Err(std::sync::TryLockError::Poisoned(e)) => return Err(e),
                Err(std::sync::TryLockError::WouldBlock) => {
                    if sched::current_thread().is_some() {
                        sched::spin();
                    } else {
                        return self.0.lock();
                    }
                }
            }
        }
    }
    pub fn try_lock(&self) -> std::sync::TryLockResult<std::sync::MutexGuard<'_, T>> {
        pt(6);
        self.0.try_lock()
    }
    pub fn get_mut(&mut self) -> std::sync::LockResult<&mut T> {
        self.0.get_mut()
    }
    pub fn is_poisoned(&self) -> bool {
        self.0.is_poisoned()
    }
}

impl<T: Default> Default for Mutex<T> {
    fn default() -> Self {
        Self::new(T::default())
    }
}

impl<T> From<T> for Mutex<T> {
    fn from(v: T) -> Self {
        Self::new(v)
    }
}

impl<T: ?Sized + std::fmt::Debug> std::fmt::Debug for Mutex<T> {
    fn fmt(&self, f: &mut std::fmt::Formatter<'_>) -> std::fmt::Result {
        self.0.fmt(f)
    }
}

/// A virtual clock in place of `std::time::Instant` for orx-parallel's own code: every reading advances the clock by
/// `CLOCK_STEP_NS` (set per case by the harness: 0 = everything takes no time, 10^9 = every reading is a second later),
/// so that what the library does with elapsed time is decided by the case, not by the speed of the machine.
pub mod time {
    use std::sync::atomic::{AtomicU64, Ordering::SeqCst};
    use std::time::Duration;

    pub static CLOCK_STEP_NS: AtomicU64 = AtomicU64::new(0);
    static NOW_NS: AtomicU64 = AtomicU64::new(1_000_000_000);
    /// number of clock readings (evidence that the library looks at the clock at all)
    pub static READINGS: AtomicU64 = AtomicU64::new(0);

    pub fn reset(step_ns: u64) {
        CLOCK_STEP_NS.store(step_ns, SeqCst);
        NOW_NS.store(1_000_000_000, SeqCst);
        READINGS.store(0, SeqCst);
    }

    #[derive(Clone, Copy, Debug, PartialEq, Eq, PartialOrd, Ord, Hash)]
    pub struct Instant(u64);

    impl Instant {
        pub fn now() -> Instant {
            READINGS.fetch_add(1, SeqCst);
            let step = CLOCK_STEP_NS.load(SeqCst);
            Instant(NOW_NS.fetch_add(step, SeqCst) + step)
        }
        pub fn elapsed(&self) -> Duration {
            Instant::now().saturating_duration_since(*self)
        }
        pub fn duration_since(&self, earlier: Instant) -> Duration {
            self.saturating_duration_since(earlier)
        }
        pub fn saturating_duration_since(&self, earlier: Instant) -> Duration {
            Duration::from_nanos(self.0.saturating_sub(earlier.0))
        }
        pub fn checked_duration_since(&self, earlier: Instant) -> Option<Duration> {
            self.0.checked_sub(earlier.0).map(Duration::from_nanos)
        }
        pub fn checked_add(&self, d: Duration) -> Option<Instant> {
            self.0.checked_add(d.as_nanos() as u64).map(Instant)
        }
        pub fn checked_sub(&self, d: Duration) -> Option<Instant> {
            self.0.checked_sub(d.as_nanos() as u64).map(Instant)
        }
    }

    impl std::ops::Sub<Instant> for Instant {
        type Output = Duration;
        fn sub(self, o: Instant) -> Duration {
            self.saturating_duration_since(o)
        }
    }
    impl std::ops::Add<Duration> for Instant {
        type Output = Instant;
        fn add(self, d: Duration) -> Instant {
            Instant(self.0 + d.as_nanos() as u64)
        }
    }
    impl std::ops::Sub<Duration> for Instant {
        type Output = Instant;
        fn sub(self, d: Duration) -> Instant {
            Instant(self.0.saturating_sub(d.as_nanos() as u64))
        }
    }
    impl std::ops::AddAssign<Duration> for Instant {
        fn add_assign(&mut self, d: Duration) {
            self.0 += d.as_nanos() as u64;
        }
    }
}
