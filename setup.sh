#!/bin/sh
# Builds the verification machinery from files on disk only (offline).
set -e
cd "$(dirname "$0")"
export CARGO_NET_OFFLINE=true
python3 tools/vendor_patch.py --check
python3 tools/gen.py --check
python3 tools/rewrite_repo.py
cd mc
cargo build --release --offline -q 2>&1 | grep -E '^(error|warning: unused)' -A8 || true
cd ..
test -x target/release/mc
target/release/mc selftest
